package govc

import (
	"bytes"
	"context"
	"encoding/json"
	"fmt"
	"go/types"
	"os"
	"os/exec"
	"path/filepath"
	"strings"
	"time"

	"golang.org/x/tools/go/ssa"
)

// Replay: a failed obligation with a model is run against the real code. Each function family has a
// hand-written in-package test (under /verif/replay/<pkgdir>/) that rebuilds the inputs from the
// model (JSON in $GOVC_MODEL), calls the real function and evaluates the property's postcondition
// written independently in Go. The test is injected with `go test -overlay`, nothing is written to
// the repository. A failing test (or a panic) means the violation is reproduced.

type replaySpec struct {
	pkgDir string // package directory relative to repo
	file   string // test source under /verif/replay
	test   string // test function
}

// function key -> replay test
var replayTests = map[string]replaySpec{}

func registerReplay(keys []string, pkgDir, file, test string) {
	for _, k := range keys {
		replayTests[k] = replaySpec{pkgDir, file, test}
	}
}

func TryReplay(repo string, rf *ReplayFile) {
	spec, ok := replayTests[rf.Function]
	if !ok {
		rf.Note = "no replay harness for this function: model attached, not executed"
		return
	}
	src := filepath.Join(VerifDir, "replay", spec.file)
	helper := filepath.Join(VerifDir, "replay", "helpers.go.txt")
	sb, err := os.ReadFile(src)
	if err != nil {
		rf.Note = "replay harness missing: " + err.Error()
		return
	}
	hb, _ := os.ReadFile(helper)
	// package clause of the helper follows the test's package
	pkgLine := ""
	for _, l := range strings.Split(string(sb), "\n") {
		if strings.HasPrefix(l, "package ") {
			pkgLine = l
			break
		}
	}
	dir := filepath.Join(Scratch(), fmt.Sprintf("replay%d", time.Now().UnixNano()))
	os.MkdirAll(dir, 0o755)
	testFile := filepath.Join(dir, "zz_govc_replay_test.go")
	helpFile := filepath.Join(dir, "zz_govc_helpers_test.go")
	os.WriteFile(testFile, sb, 0o644)
	os.WriteFile(helpFile, []byte(pkgLine+"\n"+string(hb)), 0o644)
	modelFile := filepath.Join(dir, "model.json")
	mb, _ := json.Marshal(map[string]any{"obligation": rf.Obligation, "function": rf.Function, "kind": rf.Kind, "clause": rf.Clause, "model": rf.Model})
	os.WriteFile(modelFile, mb, 0o644)
	ov := map[string]map[string]string{"Replace": {
		filepath.Join(repo, spec.pkgDir, "zz_govc_replay_test.go"):  testFile,
		filepath.Join(repo, spec.pkgDir, "zz_govc_helpers_test.go"): helpFile,
	}}
	ob, _ := json.Marshal(ov)
	ovFile := filepath.Join(dir, "overlay.json")
	os.WriteFile(ovFile, ob, 0o644)
	ctx, cancel := context.WithTimeout(context.Background(), 180*time.Second)
	defer cancel()
	cmd := exec.CommandContext(ctx, "go", "test", "-overlay", ovFile, "-vet=off", "-count=1", "-timeout", "60s", "-run", "^"+spec.test+"$", "./"+spec.pkgDir)
	cmd.Dir = repo
	cmd.Env = append(os.Environ(), "GOFLAGS=-mod=mod", "GOPROXY=off", "GOSUMDB=off", "GOTOOLCHAIN=local", "GOVC_MODEL="+modelFile)
	var out bytes.Buffer
	cmd.Stdout = &out
	cmd.Stderr = &out
	err = cmd.Run()
	log := out.String()
	if len(log) > 6000 {
		log = log[:6000] + "..."
	}
	rf.ReplayLog = log
	rf.ReplayTest = spec.file + ":" + spec.test
	if err != nil && (strings.Contains(log, "--- FAIL") || strings.Contains(log, "panic:")) && !strings.Contains(log, "GOVC-REPLAY-SKIP") {
		rf.Reproduced = true
	} else if err != nil {
		rf.Note = "replay did not run: " + err.Error()
	} else {
		rf.Note = "the model did not reproduce on the real code (abstraction too coarse or input not realisable)"
	}
}

// entryReqs: model requests describing a parameter's value and what it points to at entry
func (x *Exec) entryReqs(st *State, p *ssa.Parameter, term string) []ModelReq {
	c := x.c
	var out []ModelReq
	name := p.Name()
	out = append(out, ModelReq{Label: "param:" + name, Term: term})
	var walk func(label string, t types.Type, v string, depth int)
	walk = func(label string, t types.Type, v string, depth int) {
		if depth > 3 {
			return
		}
		t = types.Unalias(t)
		switch u := t.Underlying().(type) {
		case *types.Pointer:
			el := u.Elem()
			if x.valueLeafCount(el) > 80 {
				return
			}
			out = append(out, ModelReq{Label: label + ":isnil", Term: eq(v, "nil")})
			pv := x.load(st, el, v)
			out = append(out, ModelReq{Label: "deref:" + label, Term: pv})
			walk("*"+label, el, pv, depth+1)
		case *types.Slice:
			out = append(out, ModelReq{Label: "len:" + label, Term: sx("sl_len", v)})
			out = append(out, ModelReq{Label: "isnil:" + label, Term: eq(sx("sl_arr", v), "nil")})
			if ii, ok := basicInt(u.Elem()); ok && ii.w == 8 && !c.Int {
				h := x.get(st, "H:(_ BitVec 8)")
				var bs []string
				for k := 0; k < 48; k++ {
					bs = append(bs, sx("select", h, x.sliceElt(v, c.idx(int64(k)))))
				}
				out = append(out, ModelReq{Label: "bytes:" + label, Term: sx("concat", bs...)})
			}
		case *types.Basic:
			if u.Kind() == types.String {
				out = append(out, ModelReq{Label: "len:" + label, Term: sx("s_len", v)})
				if !c.Int {
					var bs []string
					for k := 0; k < 48; k++ {
						bs = append(bs, sx("s_at", v, c.idx(int64(k))))
					}
					out = append(out, ModelReq{Label: "bytes:" + label, Term: sx("concat", bs...)})
				}
			}
		case *types.Struct:
			for i := 0; i < u.NumFields(); i++ {
				f := u.Field(i)
				switch f.Type().Underlying().(type) {
				case *types.Pointer, *types.Slice:
					walk(label+"."+f.Name(), f.Type(), c.fieldOf(u, v, i), depth+1)
				case *types.Basic:
					if f.Type().Underlying().(*types.Basic).Kind() == types.String {
						walk(label+"."+f.Name(), f.Type(), c.fieldOf(u, v, i), depth+1)
					} else {
						out = append(out, ModelReq{Label: label + "." + f.Name(), Term: c.fieldOf(u, v, i)})
					}
				case *types.Interface:
					out = append(out, ModelReq{Label: "tag:" + label + "." + f.Name(), Term: sx("itag", c.fieldOf(u, v, i))})
				default:
					if x.valueLeafCount(f.Type()) <= 4 {
						out = append(out, ModelReq{Label: label + "." + f.Name(), Term: c.fieldOf(u, v, i)})
					}
				}
			}
		case *types.Interface:
			out = append(out, ModelReq{Label: "tag:" + label, Term: sx("itag", v)})
		}
	}
	walk(name, p.Type(), term, 0)
	return out
}

// number of SMT-level components of a value of type t (a byte array is one bit-vector)
func (x *Exec) valueLeafCount(t types.Type) int64 {
	t = types.Unalias(t)
	if _, ok := isByteArray(t); ok && !x.c.Int {
		return 1
	}
	switch u := t.Underlying().(type) {
	case *types.Struct:
		var n int64
		for i := 0; i < u.NumFields(); i++ {
			n += x.valueLeafCount(u.Field(i).Type())
		}
		return n
	case *types.Array:
		return u.Len() * x.valueLeafCount(u.Elem())
	}
	return 1
}
