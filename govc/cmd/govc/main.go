package main

import (
	"flag"
	"fmt"
	"os"
	"regexp"
	"sort"
	"strings"
	"time"

	"govc"
)

func main() {
	if len(os.Args) < 2 {
		fmt.Println("usage: govc verify|check ...")
		os.Exit(2)
	}
	switch os.Args[1] {
	case "verify":
		verify(os.Args[2:])
	case "check":
		os.Exit(govc.CheckMain(os.Args[2:]))
	case "replay":
		os.Exit(govc.ReplayMain(os.Args[2:]))
	case "structural":
		// govc structural <pkgs> <name>...
		w, err := govc.Load("/repo", strings.Split(os.Args[2], ",")...)
		if err != nil {
			fmt.Println(err)
			os.Exit(2)
		}
		if err := w.ReadContracts("/repo", "/verif/spec"); err != nil {
			fmt.Println(err)
			os.Exit(2)
		}
		for _, n := range os.Args[3:] {
			r := govc.RunStructural(w, n)
			fmt.Printf("%v %s\n   %s\n   %s\n", r.OK, r.Name, r.What, r.Detail)
		}
	default:
		fmt.Println("unknown command")
		os.Exit(2)
	}
}

// ad-hoc: verify named functions and print every obligation
func verify(args []string) {
	fs := flag.NewFlagSet("verify", flag.ExitOnError)
	repo := fs.String("repo", "/repo", "repository")
	pk := fs.String("pkgs", "./...", "package patterns (comma separated)")
	fn := fs.String("func", "", "function keys (comma separated; regexp if starts with ~)")
	only := fs.String("only", "", "obligation name regexp")
	timeout := fs.Int("t", 10, "solver timeout seconds")
	all := fs.Bool("all", false, "run all solvers")
	keep := fs.String("keep", "", "directory to keep failing queries")
	safety := fs.Bool("safety", true, "generate safety obligations")
	spec := fs.String("spec", "/verif/spec", "extra spec dir")
	lemmas := fs.Bool("lemmas", false, "check lemmas too")
	verbose := fs.Bool("v", false, "print notes")
	fs.Parse(args)
	defer govc.CleanupScratch()
	t0 := time.Now()
	w, err := govc.Load(*repo, strings.Split(*pk, ",")...)
	if err != nil {
		fmt.Println("load error:", err)
		os.Exit(2)
	}
	paths := []string{*repo}
	if _, err := os.Stat(*spec); err == nil {
		paths = append(paths, *spec)
	}
	if err := w.ReadContracts(paths...); err != nil {
		fmt.Println("contract error:", err)
		os.Exit(2)
	}
	fmt.Printf("loaded in %.1fs, %d functions, %d contracts\n", time.Since(t0).Seconds(), len(w.Funcs), len(w.Contracts))
	var keys []string
	for _, f := range strings.Split(*fn, ",") {
		if f == "" {
			continue
		}
		if strings.HasPrefix(f, "~") {
			re := regexp.MustCompile(f[1:])
			for k := range w.Funcs {
				if re.MatchString(k) {
					keys = append(keys, k)
				}
			}
		} else {
			keys = append(keys, f)
		}
	}
	sort.Strings(keys)
	var results []*govc.FuncResult
	for _, k := range keys {
		r := govc.VerifyFunc(w, k, govc.VerifyOpts{Safety: *safety})
		results = append(results, r)
	}
	if *lemmas {
		for _, lm := range w.Globals.Lemmas {
			if !lm.Assumed {
				results = append(results, govc.VerifyLemma(w, lm, ""))
			}
		}
	}
	opts := govc.RunOpts{TimeoutS: *timeout, All: *all, KeepDir: *keep}
	if *only != "" {
		opts.Only = regexp.MustCompile(*only)
	}
	govc.RunObligations(results, opts)
	bad := 0
	for _, r := range results {
		if r.Err != "" {
			fmt.Printf("UNDECIDED %s: %s\n", r.Key, r.Err)
			bad++
			continue
		}
		fmt.Printf("== %s (gen %.2fs, %d obligations)\n", r.Key, r.GenSecs, len(r.Ctx.Obls))
		for _, o := range r.Ctx.Obls {
			if o.Result == "" {
				continue
			}
			mark := "ok  "
			if o.Result != "unsat" {
				mark = "FAIL"
				bad++
			}
			fmt.Printf("  %s %-8s %-70s %s %.2fs  %s:%d\n", mark, o.Result, o.Name, o.By, o.Seconds, shortFile(o.Pos.Filename), o.Pos.Line)
			if o.Result != "unsat" && len(o.Model) > 0 {
				var ks []string
				for k := range o.Model {
					ks = append(ks, k)
				}
				sort.Strings(ks)
				for _, k := range ks {
					fmt.Printf("         %s = %s\n", k, o.Model[k])
				}
			}
		}
		if *verbose {
			for _, n := range r.Ctx.Notes {
				fmt.Println("  note:", n)
			}
			for k, n := range r.Ctx.Unmodelled {
				fmt.Printf("  unmodelled call: %s x%d\n", k, n)
			}
			for k, n := range r.Ctx.Inlined {
				fmt.Printf("  inlined: %s x%d\n", k, n)
			}
		}
	}
	fmt.Printf("total %.1fs, %d not discharged\n", time.Since(t0).Seconds(), bad)
}

func shortFile(f string) string {
	return strings.TrimPrefix(f, "/repo/")
}
