package govc

func init() {
	registerReplay([]string{"(dht/int160.T).Cmp", "(*dht/int160.T).Xor", "dht/int160.Distance", "(dht/int160.T).Distance", "(*dht/int160.T).GetBit",
		"(*dht/int160.T).SetBit", "(*dht/int160.T).IsZero"}, "int160", "int160/int160_replay_test.go", "TestGovcReplayInt160")
}

func init() {
	registerReplay([]string{"dht.crcIP", "dht.SecureNodeId", "dht.NodeIdSecure", "dht.isLocalNetwork"}, ".", "root/security_replay_test.go", "TestGovcReplaySecurity")
}
