package govc

import "strings"

func init() {
	registerReplay([]string{"(dht/int160.T).Cmp", "(*dht/int160.T).Xor", "dht/int160.Distance", "(dht/int160.T).Distance", "(*dht/int160.T).GetBit",
		"(*dht/int160.T).SetBit", "(*dht/int160.T).IsZero"}, "int160", "int160/int160_replay_test.go", "TestGovcReplayInt160")
}

func init() {
	registerReplay([]string{"dht.crcIP", "dht.SecureNodeId", "dht.NodeIdSecure", "dht.isLocalNetwork"}, ".", "root/security_replay_test.go", "TestGovcReplaySecurity")
}

func init() {
	registerReplay([]string{"dht/bep44.CheckIncoming"}, "bep44", "bep44/bep44_replay_test.go", "TestGovcReplayBep44")
}

// obligations whose failure is exhibited by a scheduling harness rather than by an SMT model
// (lock-discipline obligations: the harness tries the few interleavings of the collaborator calls)
var noModelReplay = map[string]bool{}

func replayWithoutModel(o *Obligation) bool {
	n := o.Name
	if i := strings.LastIndexByte(n, '~'); i > 0 {
		n = n[:i]
	}
	return noModelReplay[n]
}

func init() {
	for _, n := range []string{"(*dht/bep44.Wrapper).Put#call:get-under-lock", "(*dht/bep44.Wrapper).Put#call:put-under-lock",
		"(*dht/bep44.Wrapper).Get#call:get-under-lock", "(*dht/bep44.Wrapper).Get#call:del-under-lock"} {
		noModelReplay[n] = true
	}
	registerReplay([]string{"(*dht/bep44.Wrapper).Put", "(*dht/bep44.Wrapper).Get"}, "bep44", "bep44/bep44_replay_test.go", "TestGovcReplayBep44")
}

func init() {
	registerReplay([]string{"(*dht.Server).handleQuery", "(*dht.Server).setReturnNodes", "(*dht.Server).setReturnNodes$2"}, ".", "root/server_replay_test.go", "TestGovcReplayServer")
}

func init() {
	registerReplay([]string{"(*dht/krpc.NodeAddr).UnmarshalBinary", "(*dht/krpc.NodeInfo).UnmarshalBinary"}, "krpc", "krpc/krpc_replay_test.go", "TestGovcReplayKrpc")
}

func init() {
	registerReplay([]string{"dht/exts/getput.startGetTraversal$1"}, "exts/getput", "getput/getput_replay_test.go", "TestGovcReplayGetput")
}

func init() {
	for _, n := range []string{"(*dht/traversal.Operation).startQuery#call:no-address-is-queried-twice", "(*dht/traversal.Operation).addNodeLocked#call:only-addresses-not-yet-queried",
		"(*dht/traversal.Operation).addNodeLocked#call:only-contacts-that-pass-the-node-filter", "(*dht/traversal.Operation).run#call:within-the-fan-out-bound"} {
		noModelReplay[n] = true
	}
	registerReplay([]string{"(*dht/traversal.Operation).startQuery", "(*dht/traversal.Operation).addNodeLocked", "(*dht/traversal.Operation).run"}, "traversal", "traversal/traversal_replay_test.go", "TestGovcReplayTraversal")
}

func init() {
	noModelReplay["(*dht.Server).BootstrapContext#post:the-lookup-started-is-stopped-on-every-path"] = true
	noModelReplay["dht/exts/getput.Get#post:the-lookup-started-is-stopped-on-every-path"] = true
	noModelReplay["dht/exts/getput.Put#post:the-lookup-started-is-stopped-on-every-path"] = true
	registerReplay([]string{"(*dht.Server).BootstrapContext"}, ".", "root/lookup_replay_test.go", "TestGovcReplayLookupStop")
	registerReplay([]string{"dht/exts/getput.Get", "dht/exts/getput.Put"}, "exts/getput", "getput/getput_replay_test.go", "TestGovcReplayGetputStop")
}
