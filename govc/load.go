package govc

import (
	"fmt"
	"go/types"
	"os"
	"sort"
	"strings"

	"golang.org/x/tools/go/packages"
	"golang.org/x/tools/go/ssa"
	"golang.org/x/tools/go/ssa/ssautil"
)

const ModPath = "github.com/anacrolix/dht/v2"

type World struct {
	Repo      string
	Prog      *ssa.Program
	Pkgs      []*packages.Package
	Funcs     map[string]*ssa.Function // key -> function (all functions incl. anonymous, module + deps)
	Contracts map[string]*FnContract
	Globals   *GlobalSpecs
	LoadSecs  float64
	Files     []string // contract files read
	SpecUFs   map[string]*SpecUF
	SpecDefs  map[string]*SpecDef
	GhostMaps map[string]*GhostMap
}

// ShortName is the key used in contracts and obligation names.
func ShortName(s string) string {
	s = strings.ReplaceAll(s, ModPath+"/", "dht/")
	s = strings.ReplaceAll(s, ModPath, "dht")
	return s
}

func FuncKey(f *ssa.Function) string {
	if f.Origin() != nil {
		f = f.Origin()
	}
	return ShortName(f.String())
}

func Load(repo string, patterns ...string) (*World, error) {
	cfg := &packages.Config{Mode: packages.LoadAllSyntax, Dir: repo, Env: append(os.Environ(), "GOFLAGS=-mod=mod", "GOPROXY=off", "GOSUMDB=off", "GOTOOLCHAIN=local")}
	pkgs, err := packages.Load(cfg, patterns...)
	if err != nil {
		return nil, err
	}
	var errs []string
	packages.Visit(pkgs, nil, func(p *packages.Package) {
		if strings.HasPrefix(p.PkgPath, ModPath) {
			for _, e := range p.Errors {
				errs = append(errs, e.Error())
			}
		}
	})
	if len(errs) > 0 {
		return nil, fmt.Errorf("package errors: %s", strings.Join(errs, "; "))
	}
	prog, _ := ssautil.AllPackages(pkgs, ssa.GlobalDebug|ssa.InstantiateGenerics)
	prog.Build()
	w := &World{Repo: repo, Prog: prog, Pkgs: pkgs, Funcs: map[string]*ssa.Function{}, Contracts: map[string]*FnContract{}}
	for f := range ssautil.AllFunctions(prog) {
		if f.Origin() != nil {
			continue // instantiation; generic body is keyed by origin
		}
		w.Funcs[FuncKey(f)] = f
	}
	// generic functions whose origin has no body in the program: an instantiation stands for them (same key)
	var insts []*ssa.Function
	for f := range ssautil.AllFunctions(prog) {
		if f.Origin() != nil && len(f.Blocks) > 0 {
			insts = append(insts, f)
		}
	}
	sort.Slice(insts, func(i, j int) bool { return insts[i].String() < insts[j].String() })
	for _, f := range insts {
		k := FuncKey(f)
		if g, ok := w.Funcs[k]; !ok || len(g.Blocks) == 0 {
			w.Funcs[k] = f
		}
	}
	// AllFunctions misses unexported / unreferenced functions sometimes: add package members explicitly
	for _, p := range prog.AllPackages() {
		for _, m := range p.Members {
			switch m := m.(type) {
			case *ssa.Function:
				w.addFn(m)
			case *ssa.Type:
				for _, t := range []types.Type{m.Type(), types.NewPointer(m.Type())} {
					ms := prog.MethodSets.MethodSet(t)
					for i := 0; i < ms.Len(); i++ {
						if fn := prog.MethodValue(ms.At(i)); fn != nil {
							w.addFn(fn)
						}
					}
				}
			}
		}
	}
	return w, nil
}

func (w *World) addFn(f *ssa.Function) {
	if f == nil || f.Origin() != nil {
		return
	}
	k := FuncKey(f)
	if _, ok := w.Funcs[k]; ok {
		return
	}
	w.Funcs[k] = f
	for _, a := range f.AnonFuncs {
		w.addFn(a)
	}
}

func (w *World) InModule(f *ssa.Function) bool {
	if f.Origin() != nil {
		f = f.Origin()
	}
	for f.Parent() != nil {
		f = f.Parent()
	}
	if f.Pkg == nil {
		// synthetic wrappers / bound methods: decide by object
		if f.Object() != nil && f.Object().Pkg() != nil {
			return strings.HasPrefix(f.Object().Pkg().Path(), ModPath)
		}
		return false
	}
	return strings.HasPrefix(f.Pkg.Pkg.Path(), ModPath)
}

func (w *World) ModuleFuncs() []*ssa.Function {
	var fs []*ssa.Function
	for _, f := range w.Funcs {
		if w.InModule(f) && len(f.Blocks) > 0 {
			fs = append(fs, f)
		}
	}
	sort.Slice(fs, func(i, j int) bool { return FuncKey(fs[i]) < FuncKey(fs[j]) })
	return fs
}

func (w *World) PkgByName(from *types.Package, name string) *types.Package {
	if from != nil {
		if from.Name() == name {
			return from
		}
		for _, imp := range from.Imports() {
			if imp.Name() == name {
				return imp
			}
		}
	}
	for _, p := range w.Prog.AllPackages() {
		if p.Pkg.Name() == name && strings.HasPrefix(p.Pkg.Path(), ModPath) {
			return p.Pkg
		}
	}
	for _, p := range w.Prog.AllPackages() {
		if p.Pkg.Name() == name || p.Pkg.Path() == name {
			return p.Pkg
		}
	}
	return nil
}
