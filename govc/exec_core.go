package govc

import (
	"fmt"
	"go/token"
	"go/types"
	"sort"
	"strings"

	"golang.org/x/tools/go/ssa"
)

// State: reach condition + versioned components (heap arrays, map contents, allocation counter,
// ghost counters, lock states, defer flags).
type State struct {
	Reach string
	Gen   string // generation of untouched components (changes when everything is havoced)
	Comp  map[string]string
}

func (s *State) clone() *State {
	n := &State{Reach: s.Reach, Gen: s.Gen, Comp: make(map[string]string, len(s.Comp))}
	for k, v := range s.Comp {
		n.Comp[k] = v
	}
	return n
}

type Exec struct {
	c      *Ctx
	w      *World
	target string // key of the function under verification (obligation prefix)
	stack  []string
	maxInl int
	safety bool // generate O4 safety obligations
	claimInlinedSafety bool
	cntKeys map[string]bool
	topReqs []ModelReq
	gens    map[string][]genParent
	genMemo map[string]string
	topFrame *Frame
	mutexTerms []string
	released map[string]bool
	privateRefs []string // refs of non-escaping stack allocations made so far
	outsideRefs []string // refs of specification-level method results (never private stack objects)
	recTypes    map[string]types.Type // results recorded by "option records <name>"
	curCallArgs  []ssa.Value // SSA arguments of the call whose contract is being applied
	curCallFrame *Frame
	curFree      map[string]Val
	aliases      map[string]Val   // locals named by role (alias clauses), bound at the call that defines them
	csMatched    map[*Clause]bool // call-site clauses that applied to at least one site
	localObjs    []localObj // objects allocated by the frames being executed, with their types
	freshMutexes []string // mutexes of objects this function allocated (free on allocation)
	immut        []immutCell // captured variables that are never re-assigned: they keep their entry value across havocs
	panicDepth   int  // >0 while deferred functions run because of a panic: recover() returns non-nil
	lastSel      *selInfo // the most recently generated select statement (for selected()/offers())
	typedHavocs []*thEvent
	thDone      map[string]bool
	loadOwner   string
}

type genParent struct{ reach, gen string }

type Frame struct {
	x      *Exec
	fn     *ssa.Function
	key    string
	env    map[ssa.Value]string
	tup    map[ssa.Value][]string
	depth  int
	ct     *FnContract
	entry  *State
	fv     []string
	top    bool
	prefix string // obligation name prefix for inlined frames
	defers []*ssa.Defer
	loopOf map[*ssa.BasicBlock]int
	rets   []retInfo
	typeArgs map[string]types.Type
	curSite  ssa.Instruction
	rangeDom map[ssa.Value]string // key set a map iteration started from
	heads    map[*ssa.BasicBlock]*State
	parent      *Frame   // the frame this one is inlined into
	recovers    bool     // the function defers a closure that calls recover()
	panicStates []*State // states in which a panic was raised under this frame's recovering defer
}

type retInfo struct {
	st      *State
	results []string
}

func compSortKey(key string) (kind, rest string) {
	i := strings.IndexByte(key, ':')
	if i < 0 {
		return key, ""
	}
	return key[:i], key[i+1:]
}

func (x *Exec) compSort(key string) string {
	kind, rest := compSortKey(key)
	switch kind {
	case "H":
		return fmt.Sprintf("(Array Loc %s)", rest)
	case "MD":
		return fmt.Sprintf("(Array Loc (Array %s Bool))", rest)
	case "MV":
		p := strings.SplitN(rest, "|", 2)
		return fmt.Sprintf("(Array Loc (Array %s %s))", p[0], p[1])
	case "ML":
		return fmt.Sprintf("(Array Loc %s)", x.c.idxSort())
	case "alloc", "cnt":
		return "Int"
	case "lock":
		return "(Array Loc Int)"
	case "dfr":
		return "Bool"
	case "g":
		if s := rest[strings.IndexByte(rest, '|')+1:]; s != "IDX" {
			return s
		}
		return x.c.idxSort()
	}
	panic("compSort " + key)
}

func (x *Exec) compInit(gen, key string) string {
	kind, _ := compSortKey(key)
	switch kind {
	case "alloc":
		if gen == "" {
			return "alloc_0"
		}
	case "cnt":
		return "0"
	case "dfr":
		return "false"
	}
	if gen == "" {
		gen = "0"
	}
	mk := gen + "|" + key
	if v, ok := x.genMemo[mk]; ok {
		return v
	}
	var v string
	if ps := x.gens[gen]; len(ps) > 0 {
		t := x.compInit(ps[len(ps)-1].gen, key)
		for i := len(ps) - 2; i >= 0; i-- {
			t = ite(ps[i].reach, x.compInit(ps[i].gen, key), t)
		}
		v = x.c.define(mangle(key), x.compSort(key), t)
	} else {
		v = mangle(key) + "_" + gen
		x.c.declConst(v, x.compSort(key))
	}
	x.genMemo[mk] = v
	return v
}

func (x *Exec) get(st *State, key string) string {
	if v, ok := st.Comp[key]; ok {
		return v
	}
	return x.compInit(st.Gen, key)
}

func (x *Exec) set(st *State, key, term string) {
	st.Comp[key] = x.c.define(mangle(key), x.compSort(key), term)
}

func (x *Exec) merge(ins []*State) *State {
	if len(ins) == 1 {
		return ins[0].clone()
	}
	out := &State{Comp: map[string]string{}, Gen: ins[0].Gen}
	var rs []string
	keys := map[string]bool{}
	sameGen := true
	for _, s := range ins {
		if s.Gen != ins[0].Gen {
			sameGen = false
		}
	}
	if !sameGen {
		out.Gen = x.c.fresh("g")
		for _, s := range ins {
			x.gens[out.Gen] = append(x.gens[out.Gen], genParent{s.Reach, s.Gen})
		}
	}
	for _, s := range ins {
		rs = append(rs, s.Reach)
		for k := range s.Comp {
			keys[k] = true
		}
	}
	out.Reach = x.c.define("R", "Bool", or(rs...))
	var ks []string
	for k := range keys {
		ks = append(ks, k)
	}
	sort.Strings(ks)
	for _, k := range ks {
		if kind, _ := compSortKey(k); kind == "H" {
			if t, ok := x.mergeStores(ins, k); ok {
				out.Comp[k] = t
				continue
			}
		}
		t := x.get(ins[len(ins)-1], k)
		same := true
		for i := len(ins) - 2; i >= 0; i-- {
			v := x.get(ins[i], k)
			if v != t {
				same = false
			}
			t = ite(ins[i].Reach, v, t)
		}
		if same {
			out.Comp[k] = x.get(ins[0], k)
		} else {
			out.Comp[k] = x.c.define(mangle(k), x.compSort(k), t)
		}
	}
	return out
}

// storeChain: the chain of (loc, val) stores leading from an ancestor to h, newest first, and the list of
// array names passed on the way (h itself first).
type storeStep struct{ loc, val string }

func storeChainOf(h string) (names []string, steps []storeStep) {
	for i := 0; i < 200; i++ {
		names = append(names, h)
		d, ok := activeDefs[h]
		if !ok || !strings.HasPrefix(d, "(store ") {
			return
		}
		parts := splitTop(d[len("(store ") : len(d)-1])
		if len(parts) != 3 {
			return
		}
		steps = append(steps, storeStep{parts[1], parts[2]})
		h = parts[0]
	}
	return
}

// mergeStores merges heap component k of several states without an array-valued ite (which z3 handles
// badly): when all inputs are store chains over a common ancestor A, the result is A followed by every
// input's stores, each guarded by that input's reach condition:  store(H, l, ite(R_i, v, H[l])).
// Exactly one R_i holds on any execution, so the guarded stores of the others are identities.
func (x *Exec) mergeStores(ins []*State, k string) (string, bool) {
	type chain struct {
		names []string
		steps []storeStep
	}
	var cs []chain
	allSame := true
	first := x.get(ins[0], k)
	for _, s := range ins {
		h := x.get(s, k)
		if h != first {
			allSame = false
		}
		n, st := storeChainOf(h)
		cs = append(cs, chain{n, st})
	}
	if allSame {
		return first, true
	}
	// deepest common ancestor: first name of chain 0 that occurs in all chains
	anc := ""
	var cut []int
	for i0, n0 := range cs[0].names {
		idx := []int{i0}
		ok := true
		for _, c := range cs[1:] {
			f := -1
			for j, n := range c.names {
				if n == n0 {
					f = j
					break
				}
			}
			if f < 0 {
				ok = false
				break
			}
			idx = append(idx, f)
		}
		if ok {
			anc, cut = n0, idx
			break
		}
	}
	if anc == "" {
		return "", false
	}
	total := 0
	for _, c := range cut {
		total += c
	}
	if total > 96 {
		return "", false
	}
	sortS := x.compSort(k)
	h := anc
	for i, c := range cs {
		for j := cut[i] - 1; j >= 0; j-- {
			st := c.steps[j]
			h = x.c.define(mangle(k)+"_m", sortS, sx("store", h, st.loc, ite(ins[i].Reach, st.val, sx("select", h, st.loc))))
		}
	}
	return h, true
}

func (x *Exec) mergeVals(ins []*State, vals []string, sort string) string {
	t := vals[len(vals)-1]
	for i := len(vals) - 2; i >= 0; i-- {
		t = ite(ins[i].Reach, vals[i], t)
	}
	return x.c.define("phi", sort, t)
}

// ---- locations -------------------------------------------------------------------------------

func fld(loc string, k int) string { return sx("at", sx("ref", loc), sx("pf", sx("path", loc), fmt.Sprint(k))) }
func elt(loc, i string) string     { return sx("at", sx("ref", loc), sx("pi", sx("path", loc), i)) }

func (x *Exec) sliceElt(s, i string) string {
	return elt(sx("sl_arr", s), x.addIdx(sx("sl_off", s), i))
}

func (x *Exec) addIdx(a, b string) string {
	if a == x.c.idx(0) {
		return b
	}
	if b == x.c.idx(0) {
		return a
	}
	if x.c.Int {
		return sx("+", a, b)
	}
	return sx("bvadd", a, b)
}

func (x *Exec) subIdx(a, b string) string {
	if b == x.c.idx(0) {
		return a
	}
	if x.c.Int {
		return sx("-", a, b)
	}
	return sx("bvsub", a, b)
}

func (x *Exec) leIdx(a, b string) string {
	if x.c.Int {
		return sx("<=", a, b)
	}
	return sx("bvsle", a, b)
}
func (x *Exec) ltIdx(a, b string) string {
	if x.c.Int {
		return sx("<", a, b)
	}
	return sx("bvslt", a, b)
}

// ---- heap load / store -------------------------------------------------------------------------

const maxArrayExpand = 64

// loadOwned: load with the owner of the cell known (see typedhavoc.go)
func (x *Exec) loadOwned(st *State, t types.Type, loc, owner string) string {
	prev := x.loadOwner
	x.loadOwner = owner
	defer func() { x.loadOwner = prev }()
	return x.load(st, t, loc)
}

func (x *Exec) load(st *State, t types.Type, loc string) string {
	t = types.Unalias(t)
	switch u := t.Underlying().(type) {
	case *types.Struct:
		if u.NumFields() == 0 {
			return "unit"
		}
		var fs []string
		prev := x.loadOwner
		if !strings.HasPrefix(prev, "global:") { // the fields of a package-level struct variable belong to the variable
			x.loadOwner = ownerName(t)
		}
		for i := 0; i < u.NumFields(); i++ {
			fs = append(fs, x.load(st, u.Field(i).Type(), fld(loc, i)))
		}
		x.loadOwner = prev
		return x.c.mkStruct(u, fs)
	case *types.Array:
		if n, ok := isByteArray(t); ok && !x.c.Int {
			h := x.get(st, "H:(_ BitVec 8)")
			if len(x.typedHavocs) > 0 {
				for k := 0; k < n; k++ {
					x.frameFacts("H:(_ BitVec 8)", elt(loc, x.c.idx(int64(k))), x.loadOwner)
				}
			}
			if n == 1 {
				return sx("select", h, elt(loc, x.c.idx(0)))
			}
			var bs []string
			for k := 0; k < n; k++ {
				bs = append(bs, sx("select", h, elt(loc, x.c.idx(int64(k)))))
			}
			return sx("concat", bs...)
		}
		if u.Len() <= 8 {
			a := sx("(as const "+x.c.sortOf(t)+")", x.c.zero(u.Elem()))
			for k := int64(0); k < u.Len(); k++ {
				a = sx("store", a, x.c.idx(k), x.load(st, u.Elem(), elt(loc, x.c.idx(k))))
			}
			return a
		}
		return x.c.freshConst("arrval", x.c.sortOf(t))
	}
	s := x.c.sortOf(t)
	if len(x.typedHavocs) > 0 {
		x.frameFacts("H:"+s, loc, x.loadOwner)
	}
	x.entryValueFacts("H:"+s, x.get(st, "H:"+s), loc, x.loadOwner, s)
	if x.c.Int && !x.c.mentionsBound(loc) {
		x.assumeIntRange(t, sx("select", x.get(st, "H:"+s), loc))
	}
	return sx("select", x.get(st, "H:"+s), loc)
}

func (x *Exec) store(st *State, t types.Type, loc string, val string) {
	t = types.Unalias(t)
	switch u := t.Underlying().(type) {
	case *types.Struct:
		for i := 0; i < u.NumFields(); i++ {
			x.store(st, u.Field(i).Type(), fld(loc, i), x.c.fieldOf(u, val, i))
		}
		return
	case *types.Array:
		if n, ok := isByteArray(t); ok && !x.c.Int {
			key := "H:(_ BitVec 8)"
			h := x.get(st, key)
			for k := 0; k < n; k++ {
				h = sx("store", h, elt(loc, x.c.idx(int64(k))), byteOf(val, n, k))
			}
			x.set(st, key, h)
			return
		}
		if u.Len() <= 8 {
			for k := int64(0); k < u.Len(); k++ {
				x.store(st, u.Elem(), elt(loc, x.c.idx(k)), sx("select", val, x.c.idx(k)))
			}
			return
		}
		// large array value: contents not tracked (havoc): sound over-approximation
		x.havocSorts(st, x.leafSorts(u.Elem(), nil))
		return
	}
	s := x.c.sortOf(t)
	key := "H:" + s
	x.set(st, key, sx("store", x.get(st, key), loc, val))
}

func byteOf(v string, n, k int) string {
	hi := 8*(n-k) - 1
	lo := 8 * (n - 1 - k)
	if n == 1 {
		return v
	}
	return sx(fmt.Sprintf("(_ extract %d %d)", hi, lo), v)
}

// leaf heap sorts of a type
func (x *Exec) leafSorts(t types.Type, acc map[string]bool) map[string]bool {
	if acc == nil {
		acc = map[string]bool{}
	}
	t = types.Unalias(t)
	switch u := t.Underlying().(type) {
	case *types.Struct:
		for i := 0; i < u.NumFields(); i++ {
			x.leafSorts(u.Field(i).Type(), acc)
		}
	case *types.Array:
		if _, ok := isByteArray(t); ok && !x.c.Int {
			acc["(_ BitVec 8)"] = true
		} else {
			x.leafSorts(u.Elem(), acc)
		}
	default:
		acc[x.c.sortOf(t)] = true
	}
	return acc
}

func (x *Exec) havocSorts(st *State, sorts map[string]bool) {
	var ks []string
	for s := range sorts {
		ks = append(ks, s)
	}
	sort.Strings(ks)
	for _, s := range ks {
		key := "H:" + s
		st.Comp[key] = x.c.freshConst(mangle(key)+"_hv", x.compSort(key))
	}
}

func (x *Exec) havocAllHeap(st *State) {
	var ks []string
	for k := range st.Comp {
		kind, _ := compSortKey(k)
		if kind == "H" || kind == "MD" || kind == "MV" || kind == "ML" {
			ks = append(ks, k)
		}
	}
	// components not touched so far get a new generation, so that a later first use does not
	// equate the value before and after this havoc.
	for _, k := range ks {
		delete(st.Comp, k)
	}
	// lock states and the allocation counter are not heap contents: they survive
	st.Comp["lock"] = x.get(st, "lock")
	st.Comp["alloc"] = x.get(st, "alloc")
	st.Gen = x.c.fresh("g")
	x.reassumeImmutable(st)
}

// zero-initialise an allocated object
func (x *Exec) zeroInit(st *State, t types.Type, loc string) {
	t = types.Unalias(t)
	switch u := t.Underlying().(type) {
	case *types.Struct:
		for i := 0; i < u.NumFields(); i++ {
			x.zeroInit(st, u.Field(i).Type(), fld(loc, i))
		}
		return
	case *types.Array:
		if u.Len() > maxArrayExpand {
			return // contents unknown (sound: zero is one of the possibilities)
		}
		if n, ok := isByteArray(t); ok && !x.c.Int {
			key := "H:(_ BitVec 8)"
			h := x.get(st, key)
			for k := 0; k < n; k++ {
				h = sx("store", h, elt(loc, x.c.idx(int64(k))), "#x00")
			}
			x.set(st, key, h)
			return
		}
		for k := int64(0); k < u.Len(); k++ {
			x.zeroInit(st, u.Elem(), elt(loc, x.c.idx(k)))
		}
		return
	}
	x.store(st, t, loc, x.c.zero(t))
}

func (x *Exec) alloc(st *State, comment string) string {
	r := x.c.freshConst("a", "Int")
	cur := x.get(st, "alloc")
	x.c.assume(implies(st.Reach, eq(r, cur)))
	x.set(st, "alloc", sx("+", cur, "1"))
	return sx("at", r, "proot")
}

// assume a freshly obtained Loc-carrying value refers only to already allocated objects
func (x *Exec) assumeAllocated(st *State, t types.Type, v string) {
	t = types.Unalias(t)
	switch t.Underlying().(type) {
	case *types.Pointer, *types.Map:
		x.c.assume(implies(st.Reach, or(eq(v, "nil"), and(sx("<", sx("ref", v), x.get(st, "alloc")), x.notPrivate(sx("ref", v))))))
	case *types.Slice:
		a := sx("sl_arr", v)
		x.c.assume(implies(st.Reach, and(or(eq(a, "nil"), and(sx("<", sx("ref", a), x.get(st, "alloc")), x.notPrivate(sx("ref", a)))), x.sliceWF(v))))
	case *types.Basic:
		if t.Underlying().(*types.Basic).Kind() == types.String {
			x.c.assume(x.leIdx(x.c.idx(0), sx("s_len", v)))
		}
	}
}

func (x *Exec) sliceWF(v string) string {
	z := x.c.idx(0)
	wf := and(x.leIdx(z, sx("sl_off", v)), x.leIdx(z, sx("sl_len", v)), x.leIdx(sx("sl_len", v), sx("sl_cap", v)),
		implies(eq(sx("sl_arr", v), "nil"), eq(sx("sl_cap", v), z)))
	if !x.c.Int {
		// offsets and capacities of real slices are far below 2^60: index arithmetic does not wrap
		wf = and(wf, x.leIdx(sx("sl_off", v), "#x0fffffffffffffff"), x.leIdx(sx("sl_cap", v), "#x0fffffffffffffff"))
	}
	return wf
}

// ---- obligations -------------------------------------------------------------------------------

func (fr *Frame) pos(p token.Pos) token.Position {
	if !p.IsValid() {
		return token.Position{}
	}
	return fr.x.w.Prog.Fset.Position(p)
}

func (fr *Frame) safe(st *State, what string, p token.Pos, goal string) {
	x := fr.x
	if !x.safety || goal == "true" {
		return
	}
	name := fmt.Sprintf("%s#safe:%s", x.target, what)
	if !fr.top {
		name = fmt.Sprintf("%s#safe:%s:%s", x.target, fr.prefix, what)
	}
	if rf := fr.recoveringFrame(st); rf != nil {
		// the run-time panic this check stands for would be caught by a deferred recover(): no obligation; the
		// panicking state goes to the recovering frame, execution continues here only where the check holds
		ps := st.clone()
		ps.Reach = x.c.define("R", "Bool", and(st.Reach, not(goal)))
		rf.panicStates = append(rf.panicStates, ps)
		st.Reach = x.c.define("R", "Bool", and(st.Reach, goal))
		return
	}
	x.c.oblige(name, "safe", x.target, what, fr.pos(p), st.Reach, goal, fr.modelReqs())
	// after the check, execution continues only if it held
	x.c.assume(implies(st.Reach, goal))
}

func (fr *Frame) modelReqs() []ModelReq {
	top := fr
	return top.x.topReqs
}

// ---- running a function ------------------------------------------------------------------------

type edge struct {
	from *ssa.BasicBlock
	st   *State
}

func (x *Exec) newFrame(fn *ssa.Function, depth int, top bool) *Frame {
	key := FuncKey(fn)
	fr := &Frame{x: x, fn: fn, key: key, env: map[ssa.Value]string{}, tup: map[ssa.Value][]string{}, depth: depth, top: top, prefix: key}
	fr.ct = x.w.Contracts[key]
	fr.recovers = defersRecover(fn)
	return fr
}

// defersRecover: does fn defer a function literal that calls recover()?
func defersRecover(fn *ssa.Function) bool {
	for _, b := range fn.Blocks {
		for _, in := range b.Instrs {
			d, ok := in.(*ssa.Defer)
			if !ok {
				continue
			}
			var callee *ssa.Function
			if mc, ok := d.Call.Value.(*ssa.MakeClosure); ok {
				callee, _ = mc.Fn.(*ssa.Function)
			} else {
				callee = d.Call.StaticCallee()
			}
			if callee != nil && callsRecover(callee) {
				return true
			}
		}
	}
	return false
}

func callsRecover(f *ssa.Function) bool {
	for _, b := range f.Blocks {
		for _, in := range b.Instrs {
			if c, ok := in.(*ssa.Call); ok {
				if bi, ok := c.Call.Value.(*ssa.Builtin); ok && bi.Name() == "recover" {
					return true
				}
			}
		}
	}
	return false
}

// recoveringFrame: the nearest frame (this one or one it is inlined into) whose recovering defer has been registered
// on the current path: a panic raised here is caught there.
func (fr *Frame) recoveringFrame(st *State) *Frame {
	for f := fr; f != nil; f = f.parent {
		if !f.recovers {
			continue
		}
		for k := range f.defers {
			if f.x.get(st, fmt.Sprintf("dfr:%s/%d/%d", f.key, f.depth, k)) == "true" {
				return f
			}
		}
	}
	return nil
}

// natural loops: header -> set of blocks
func loopsOf(fn *ssa.Function) (headers []*ssa.BasicBlock, body map[*ssa.BasicBlock]map[*ssa.BasicBlock]bool, back map[[2]int]bool) {
	body = map[*ssa.BasicBlock]map[*ssa.BasicBlock]bool{}
	back = map[[2]int]bool{}
	for _, b := range fn.Blocks {
		for _, s := range b.Succs {
			if s.Dominates(b) {
				back[[2]int{b.Index, s.Index}] = true
				if body[s] == nil {
					body[s] = map[*ssa.BasicBlock]bool{s: true}
					headers = append(headers, s)
				}
				// collect blocks that reach b without passing s
				var stack []*ssa.BasicBlock
				if !body[s][b] {
					body[s][b] = true
					stack = append(stack, b)
				}
				for len(stack) > 0 {
					n := stack[len(stack)-1]
					stack = stack[:len(stack)-1]
					for _, p := range n.Preds {
						if !body[s][p] {
							body[s][p] = true
							stack = append(stack, p)
						}
					}
				}
			}
		}
	}
	sort.Slice(headers, func(i, j int) bool { return headers[i].Index < headers[j].Index })
	return
}

func rpo(fn *ssa.Function, back map[[2]int]bool) []*ssa.BasicBlock {
	seen := map[*ssa.BasicBlock]bool{}
	var post []*ssa.BasicBlock
	var dfs func(b *ssa.BasicBlock)
	dfs = func(b *ssa.BasicBlock) {
		seen[b] = true
		for i := len(b.Succs) - 1; i >= 0; i-- {
			s := b.Succs[i]
			if back[[2]int{b.Index, s.Index}] || seen[s] {
				continue
			}
			dfs(s)
		}
		post = append(post, b)
	}
	dfs(fn.Blocks[0])
	for i, j := 0, len(post)-1; i < j; i, j = i+1, j-1 {
		post[i], post[j] = post[j], post[i]
	}
	return post
}

// run executes fn from state st with parameters already bound in fr.env. It returns the merged
// exit (nil if no return is reachable).
func (fr *Frame) runOld(st *State) *retInfo {
	x := fr.x
	fn := fr.fn
	if len(fn.Blocks) == 0 {
		panic("run: no body for " + fr.key)
	}
	fr.entry = st.clone()
	headers, bodies, back := loopsOf(fn)
	fr.loopOf = map[*ssa.BasicBlock]int{}
	for i, h := range headers {
		fr.loopOf[h] = i + 1
	}
	order := rpo(fn, back)
	exits := map[*ssa.BasicBlock]map[*ssa.BasicBlock]*State{} // from -> to -> state on that edge
	for _, b := range order {
		var cur *State
		var ins []*State
		var inFrom []*ssa.BasicBlock
		if b == fn.Blocks[0] {
			cur = st.clone()
		} else {
			for _, p := range b.Preds {
				if back[[2]int{p.Index, b.Index}] {
					continue
				}
				if es, ok := exits[p][b]; ok && es != nil {
					ins = append(ins, es)
					inFrom = append(inFrom, p)
				}
			}
			if len(ins) == 0 {
				continue // unreachable
			}
			cur = x.merge(ins)
		}
		// phis
		phiVals := map[*ssa.Phi]string{}
		for _, in := range b.Instrs {
			phi, ok := in.(*ssa.Phi)
			if !ok {
				break
			}
			var vals []string
			for _, p := range inFrom {
				for pi, bp := range b.Preds {
					if bp == p {
						vals = append(vals, fr.val(phi.Edges[pi]))
						break
					}
				}
			}
			phiVals[phi] = x.mergeVals(ins, vals, x.c.sortOf(phi.Type()))
		}
		if ln, isHeader := fr.loopOf[b]; isHeader {
			cur = fr.loopCut(b, ln, bodies[b], cur, phiVals)
		} else {
			for phi, v := range phiVals {
				fr.env[phi] = v
			}
		}
		// instructions
		x.c.comment(fmt.Sprintf("%s block %d (%s)", fr.key, b.Index, b.Comment))
		alive := true
		for _, in := range b.Instrs {
			if _, ok := in.(*ssa.Phi); ok {
				continue
			}
			if !fr.instr(cur, in) {
				alive = false
				break
			}
		}
		if !alive {
			continue
		}
		// terminator
		last := b.Instrs[len(b.Instrs)-1]
		exits[b] = map[*ssa.BasicBlock]*State{}
		emit := func(to *ssa.BasicBlock, cond string) {
			es := cur.clone()
			if cond != "true" {
				es.Reach = x.c.define("R", "Bool", and(cur.Reach, cond))
			}
			if back[[2]int{b.Index, to.Index}] {
				fr.loopBack(b, to, es)
				return
			}
			if prev, ok := exits[b][to]; ok { // both branches to the same block
				exits[b][to] = x.merge([]*State{prev, es})
				return
			}
			exits[b][to] = es
		}
		switch t := last.(type) {
		case *ssa.If:
			cnd := fr.val(t.Cond)
			emit(b.Succs[0], cnd)
			emit(b.Succs[1], not(cnd))
		case *ssa.Jump:
			emit(b.Succs[0], "true")
		case *ssa.Return, *ssa.Panic:
			// handled in instr
		default:
			panic(fmt.Sprintf("unexpected terminator %T", last))
		}
	}
	if len(fr.rets) == 0 {
		return nil
	}
	var sts []*State
	for _, r := range fr.rets {
		sts = append(sts, r.st)
	}
	out := &retInfo{st: x.merge(sts)}
	nres := fn.Signature.Results().Len()
	for i := 0; i < nres; i++ {
		var vals []string
		for _, r := range fr.rets {
			vals = append(vals, r.results[i])
		}
		out.results = append(out.results, x.mergeVals(sts, vals, x.c.sortOf(fn.Signature.Results().At(i).Type())))
	}
	return out
}

func (fr *Frame) val(v ssa.Value) string {
	if t, ok := fr.env[v]; ok {
		return t
	}
	x := fr.x
	switch v := v.(type) {
	case *ssa.Const:
		return x.constTerm(v)
	case *ssa.Global:
		return x.c.globalLoc(ShortName(v.String()))
	case *ssa.Function:
		return x.c.fnConst(FuncKey(v))
	case *ssa.Builtin:
		return x.c.fnConst("builtin." + v.Name())
	case *ssa.FreeVar:
		for i, f := range fr.fn.FreeVars {
			if f == v && i < len(fr.fv) {
				return fr.fv[i]
			}
		}
	}
	// value not defined on this path (dead edge) or not yet computed: unconstrained
	t := x.c.freshConst("undef", x.c.sortOf(v.Type()))
	fr.env[v] = t
	return t
}

// the cases of a select statement: channel terms, the literal of each case index, and the chosen index
type selInfo struct {
	idx   string
	chans []string
	lits  []string
}
