package govc

import (
	"fmt"
	"strings"
	"unicode"
)

// Contract expression AST
type Expr interface{ String() string }

type (
	EIdent struct{ Name string }
	ELit   struct {
		Kind string // int, bool, string, nil, char
		Val  string
	}
	EUnary  struct {
		Op string
		X  Expr
	}
	EBinary struct {
		Op   string
		L, R Expr
	}
	ECall struct {
		Fun  string
		Args []Expr
	}
	ESelect struct {
		X     Expr
		Field string
	}
	EIndex struct{ X, I Expr }
	ESlice struct{ X, Lo, Hi Expr }
	EQuant struct {
		Forall bool
		Vars   []QVar
		Body   Expr
	}
	ECond struct{ C, A, B Expr }
)

type QVar struct{ Name, Type string }

func (e EIdent) String() string  { return e.Name }
func (e ELit) String() string    { return e.Val }
func (e EUnary) String() string  { return e.Op + e.X.String() }
func (e EBinary) String() string { return "(" + e.L.String() + " " + e.Op + " " + e.R.String() + ")" }
func (e ECall) String() string {
	var as []string
	for _, a := range e.Args {
		as = append(as, a.String())
	}
	return e.Fun + "(" + strings.Join(as, ", ") + ")"
}
func (e ESelect) String() string { return e.X.String() + "." + e.Field }
func (e EIndex) String() string  { return e.X.String() + "[" + e.I.String() + "]" }
func (e ESlice) String() string {
	s := e.X.String() + "["
	if e.Lo != nil {
		s += e.Lo.String()
	}
	s += ":"
	if e.Hi != nil {
		s += e.Hi.String()
	}
	return s + "]"
}
func (e EQuant) String() string {
	q := "exists"
	if e.Forall {
		q = "forall"
	}
	var vs []string
	for _, v := range e.Vars {
		vs = append(vs, v.Name+" "+v.Type)
	}
	return "(" + q + " " + strings.Join(vs, ", ") + " :: " + e.Body.String() + ")"
}
func (e ECond) String() string { return "(" + e.C.String() + " ? " + e.A.String() + " : " + e.B.String() + ")" }

type tok struct {
	k string // id, int, str, char, op, eof
	s string
}

func lexExpr(s string) ([]tok, error) {
	var ts []tok
	i := 0
	ops := []string{"<==>", "==>", "&&", "||", "==", "!=", "<=", ">=", "<<", ">>", "&^", "::", "+", "-", "*", "/", "%", "&", "|", "^", "<", ">", "!", "(", ")", "[", "]", ",", ".", ":", "?", "{", "}"}
	for i < len(s) {
		c := rune(s[i])
		switch {
		case unicode.IsSpace(c):
			i++
		case unicode.IsLetter(c) || c == '_' || c == '$':
			j := i
			for j < len(s) && (unicode.IsLetter(rune(s[j])) || unicode.IsDigit(rune(s[j])) || s[j] == '_' || s[j] == '$') {
				j++
			}
			ts = append(ts, tok{"id", s[i:j]})
			i = j
		case unicode.IsDigit(c):
			j := i
			for j < len(s) && (unicode.IsLetter(rune(s[j])) || unicode.IsDigit(rune(s[j]))) {
				j++
			}
			ts = append(ts, tok{"int", s[i:j]})
			i = j
		case c == '"':
			j := i + 1
			for j < len(s) && s[j] != '"' {
				if s[j] == '\\' {
					j++
				}
				j++
			}
			if j >= len(s) {
				return nil, fmt.Errorf("unterminated string")
			}
			ts = append(ts, tok{"str", s[i : j+1]})
			i = j + 1
		case c == '\'':
			j := i + 1
			for j < len(s) && s[j] != '\'' {
				if s[j] == '\\' {
					j++
				}
				j++
			}
			if j >= len(s) {
				return nil, fmt.Errorf("unterminated character literal at %q", s[i:])
			}
			ts = append(ts, tok{"char", s[i : j+1]})
			i = j + 1
		default:
			found := false
			for _, op := range ops {
				if strings.HasPrefix(s[i:], op) {
					ts = append(ts, tok{"op", op})
					i += len(op)
					found = true
					break
				}
			}
			if !found {
				return nil, fmt.Errorf("unexpected character %q at %d", c, i)
			}
		}
	}
	ts = append(ts, tok{"eof", ""})
	return ts, nil
}

type eparser struct {
	ts []tok
	p  int
}

func ParseExpr(s string) (e Expr, err error) {
	ts, err := lexExpr(s)
	if err != nil {
		return nil, err
	}
	p := &eparser{ts: ts}
	defer func() {
		if r := recover(); r != nil {
			err = fmt.Errorf("parse error in %q: %v", s, r)
		}
	}()
	e = p.expr()
	if p.peek().k != "eof" {
		panic(fmt.Sprintf("trailing tokens at %q", p.peek().s))
	}
	return e, nil
}

func (p *eparser) peek() tok { return p.ts[p.p] }
func (p *eparser) next() tok { t := p.ts[p.p]; p.p++; return t }
func (p *eparser) isOp(s string) bool {
	t := p.peek()
	return t.k == "op" && t.s == s
}
func (p *eparser) expect(s string) {
	if !p.isOp(s) {
		panic(fmt.Sprintf("expected %q, got %q", s, p.peek().s))
	}
	p.p++
}

func (p *eparser) expr() Expr {
	t := p.peek()
	if t.k == "id" && (t.s == "forall" || t.s == "exists") {
		p.next()
		var vars []QVar
		var names []string
		names = append(names, p.next().s)
		for p.isOp(",") {
			p.next()
			names = append(names, p.next().s)
		}
		ty := p.typeText()
		for _, n := range names {
			vars = append(vars, QVar{n, ty})
		}
		p.expect("::")
		return EQuant{Forall: t.s == "forall", Vars: vars, Body: p.expr()}
	}
	return p.iff()
}

// type text up to '::' or ';'
func (p *eparser) typeText() string {
	var sb strings.Builder
	for !(p.isOp("::") || p.peek().k == "eof") {
		sb.WriteString(p.next().s)
	}
	return sb.String()
}

func (p *eparser) iff() Expr {
	l := p.imp()
	for p.isOp("<==>") {
		p.next()
		r := p.imp()
		l = EBinary{"<==>", l, r}
	}
	return l
}

func (p *eparser) imp() Expr {
	l := p.cond()
	if p.isOp("==>") {
		p.next()
		var r Expr
		if t := p.peek(); t.k == "id" && (t.s == "forall" || t.s == "exists") {
			r = p.expr()
		} else {
			r = p.imp()
		}
		return EBinary{"==>", l, r}
	}
	return l
}

func (p *eparser) cond() Expr {
	c := p.lor()
	if p.isOp("?") {
		p.next()
		a := p.cond()
		p.expect(":")
		b := p.cond()
		return ECond{c, a, b}
	}
	return c
}

func (p *eparser) lor() Expr {
	l := p.land()
	for p.isOp("||") {
		p.next()
		l = EBinary{"||", l, p.land()}
	}
	return l
}

func (p *eparser) land() Expr {
	l := p.cmp()
	for p.isOp("&&") {
		p.next()
		l = EBinary{"&&", l, p.cmp()}
	}
	return l
}

func (p *eparser) cmp() Expr {
	l := p.add()
	for {
		t := p.peek()
		if t.k == "op" && (t.s == "==" || t.s == "!=" || t.s == "<" || t.s == "<=" || t.s == ">" || t.s == ">=") {
			p.next()
			l = EBinary{t.s, l, p.add()}
		} else if t.k == "id" && t.s == "in" {
			p.next()
			l = EBinary{"in", l, p.add()}
		} else {
			return l
		}
	}
}

func (p *eparser) add() Expr {
	l := p.mul()
	for {
		t := p.peek()
		if t.k == "op" && (t.s == "+" || t.s == "-" || t.s == "|" || t.s == "^") {
			p.next()
			l = EBinary{t.s, l, p.mul()}
		} else {
			return l
		}
	}
}

func (p *eparser) mul() Expr {
	l := p.unary()
	for {
		t := p.peek()
		if t.k == "op" && (t.s == "*" || t.s == "/" || t.s == "%" || t.s == "<<" || t.s == ">>" || t.s == "&" || t.s == "&^") {
			p.next()
			l = EBinary{t.s, l, p.unary()}
		} else {
			return l
		}
	}
}

func (p *eparser) unary() Expr {
	t := p.peek()
	if t.k == "op" && (t.s == "!" || t.s == "-" || t.s == "^" || t.s == "*" || t.s == "&") {
		p.next()
		return EUnary{t.s, p.unary()}
	}
	return p.postfix()
}

func (p *eparser) postfix() Expr {
	e := p.primary()
	for {
		switch {
		case p.isOp("."):
			p.next()
			f := p.next()
			// package-qualified or method-like call
			if p.isOp("(") {
				if id, ok := e.(EIdent); ok {
					p.next()
					args := p.args()
					e = ECall{Fun: id.Name + "." + f.s, Args: args}
					continue
				}
				// method call on expression: f(x, args)
				p.next()
				args := p.args()
				e = ECall{Fun: "." + f.s, Args: append([]Expr{e}, args...)}
				continue
			}
			e = ESelect{e, f.s}
		case p.isOp("["):
			p.next()
			if p.isOp(":") {
				p.next()
				var hi Expr
				if !p.isOp("]") {
					hi = p.expr()
				}
				p.expect("]")
				e = ESlice{e, nil, hi}
				continue
			}
			i := p.expr()
			if p.isOp(":") {
				p.next()
				var hi Expr
				if !p.isOp("]") {
					hi = p.expr()
				}
				p.expect("]")
				e = ESlice{e, i, hi}
				continue
			}
			p.expect("]")
			e = EIndex{e, i}
		default:
			return e
		}
	}
}

func (p *eparser) args() []Expr {
	var args []Expr
	if p.isOp(")") {
		p.next()
		return args
	}
	for {
		args = append(args, p.expr())
		if p.isOp(",") {
			p.next()
			continue
		}
		p.expect(")")
		return args
	}
}

func (p *eparser) primary() Expr {
	t := p.next()
	switch t.k {
	case "int":
		return ELit{"int", t.s}
	case "str":
		return ELit{"string", t.s}
	case "char":
		return ELit{"char", t.s}
	case "id":
		switch t.s {
		case "true", "false":
			return ELit{"bool", t.s}
		case "nil":
			return ELit{"nil", "nil"}
		}
		if p.isOp("(") {
			p.next()
			return ECall{Fun: t.s, Args: p.args()}
		}
		return EIdent{t.s}
	case "op":
		if t.s == "(" {
			e := p.expr()
			p.expect(")")
			return e
		}
	}
	panic(fmt.Sprintf("unexpected token %q", t.s))
}
