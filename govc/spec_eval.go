package govc

import (
	"fmt"
	"go/ast"
	"go/constant"
	"go/types"
	"math/big"
	"os"
	"runtime/debug"
	"strconv"
	"strings"

	"golang.org/x/tools/go/ssa"
)

type Val struct {
	T        string
	Ty       types.Type // Go type; nil for spec-typed values
	K        string     // "" (Go typed) | "const" untyped integer constant | "math" SMT Int | "bool" | "nil" | "raw:<sort>"
	C        *big.Int
	ptrToVar bool // T is the address of a captured variable; uses auto-dereference
}

type Scope struct {
	inOld bool // evaluating inside old(): names denote entry values
	paramsAtEntry bool // postconditions: parameter names denote the arguments passed
	x          *Exec
	vars       map[string]Val
	st, old    *State
	pkg        *types.Package
	frame      *Frame // the function under verification (params, free vars, debug refs)
	localFrame *Frame
	at         ssa.Instruction // program point of the clause (call sites): disambiguates re-assigned locals
	phiOver    map[ssa.Value]string
	header     *ssa.BasicBlock
}

type evalError struct{ msg string }

func (sc *Scope) fail(f string, a ...any) {
	if os.Getenv("GOVC_TRACE") != "" {
		fmt.Fprintf(os.Stderr, "eval failure: %s\n%s\n", fmt.Sprintf(f, a...), debug.Stack())
	}
	panic(evalError{fmt.Sprintf(f, a...)})
}

func (sc *Scope) with(st *State) *Scope {
	n := *sc
	n.st = st
	return &n
}

func (sc *Scope) bind(name string, v Val) *Scope {
	n := *sc
	n.vars = map[string]Val{}
	for k, x := range sc.vars {
		n.vars[k] = x
	}
	n.vars[name] = v
	return &n
}

func (fr *Frame) scope(st, old *State) *Scope {
	var pkg *types.Package
	f := fr.fn
	for f.Parent() != nil {
		f = f.Parent()
	}
	if f.Pkg != nil {
		pkg = f.Pkg.Pkg
	} else if f.Object() != nil {
		pkg = f.Object().Pkg()
	}
	return &Scope{x: fr.x, vars: map[string]Val{}, st: st, old: old, pkg: pkg, frame: fr}
}

func (sc *Scope) evalBool(e Expr) string {
	v := sc.eval(e)
	if v.K == "bool" || (v.Ty != nil && isBool(v.Ty)) {
		return v.T
	}
	sc.fail("expression %s is not boolean", e)
	return ""
}

func isBool(t types.Type) bool {
	b, ok := t.Underlying().(*types.Basic)
	return ok && b.Info()&types.IsBoolean != 0
}

func boolVal(t string) Val { return Val{T: t, K: "bool"} }

func (sc *Scope) eval(e Expr) Val {
	x := sc.x
	c := x.c
	switch e := e.(type) {
	case ELit:
		switch e.Kind {
		case "bool":
			return boolVal(e.Val)
		case "nil":
			return Val{K: "nil"}
		case "int":
			n, ok := new(big.Int).SetString(e.Val, 0)
			if !ok {
				sc.fail("bad integer %s", e.Val)
			}
			return Val{K: "const", C: n}
		case "char":
			s, err := strconv.Unquote(e.Val)
			if err != nil || len(s) != 1 {
				sc.fail("bad char %s", e.Val)
			}
			return Val{K: "const", C: big.NewInt(int64(s[0]))}
		case "string":
			s, err := strconv.Unquote(e.Val)
			if err != nil {
				sc.fail("bad string %s", e.Val)
			}
			return Val{T: c.strLit(s), Ty: types.Typ[types.String]}
		}
	case EIdent:
		return sc.ident(e.Name)
	case EUnary:
		return sc.unary(e)
	case EBinary:
		return sc.binary(e)
	case ECond:
		cnd := sc.evalBool(e.C)
		a, b := sc.eval(e.A), sc.eval(e.B)
		a, b = sc.unify(a, b)
		r := a
		r.T = ite(cnd, a.T, b.T)
		return r
	case ESelect:
		return sc.selectExpr(e)
	case EIndex:
		return sc.index(e)
	case ECall:
		return sc.call(e)
	case EQuant:
		return sc.quant(e)
	case ESlice:
		sc.fail("slice expressions are only allowed in modifies clauses")
	}
	sc.fail("cannot evaluate %s", e)
	return Val{}
}

// ---- identifiers ----------------------------------------------------------------------------------

func (sc *Scope) ident(name string) Val {
	if v, ok := sc.vars[name]; ok {
		return sc.deref(v)
	}
	if v, ok := sc.x.aliases[name]; ok {
		return sc.deref(v)
	}
	if fr := sc.frame; fr != nil {
		if name == "$iter" && sc.header != nil {
			// number of completed iterations of a range loop (its hidden index + 1)
			for _, in := range sc.header.Instrs {
				if phi, ok := in.(*ssa.Phi); ok && phi.Comment == "rangeindex" {
					one := Val{K: "const", C: big.NewInt(1)}
					return Val{T: sx(map[bool]string{true: "+", false: "bvadd"}[sc.x.c.Int], sc.valueOf(fr, phi), sc.convertConst(one, phi.Type()).T), Ty: phi.Type()}
				}
			}
			// a range over a map: the ghost count of elements produced so far
			for _, in := range sc.header.Instrs {
				if nx, ok := in.(*ssa.Next); ok && !nx.IsString {
					return Val{T: sc.x.get(sc.st, mapIterKey(nx.Iter)), Ty: types.Typ[types.Int]}
				}
			}
			// an index loop (for i := 0; ...; i++): its counter, if it is the only integer variable the loop re-assigns
			if phi := uniqueIntPhi(sc.header); phi != nil {
				return Val{T: sc.valueOf(fr, phi), Ty: phi.Type()}
			}
			sc.fail("$iter used outside a range loop")
		}
		if name == "$ivar" && sc.header != nil {
			// the loop's induction variable, whatever it is called: the only integer variable the loop re-assigns
			if phi := uniqueIntPhi(sc.header); phi != nil {
				return Val{T: sc.valueOf(fr, phi), Ty: phi.Type()}
			}
			sc.fail("$ivar: the loop does not have exactly one integer variable")
		}
		if sc.header != nil {
			// in a loop invariant a variable that the loop re-assigns (also a parameter) denotes its current value
			for _, in := range sc.header.Instrs {
				if phi, ok := in.(*ssa.Phi); ok && phi.Comment == name {
					return Val{T: sc.valueOf(fr, phi), Ty: phi.Type()}
				}
			}
		}
		for _, p := range fr.fn.Params {
			if p.Name() == name {
				// a parameter the body assigns to (or takes the address of) lives in a local cell: outside old() its
				// name denotes the current content of that cell, once the cell exists
				if !sc.inOld && !sc.paramsAtEntry && sc.st != fr.entry {
					if cell := paramCell(fr.fn, p); cell != nil {
						if _, ok := fr.env[cell]; ok {
							pt := cell.Type().Underlying().(*types.Pointer)
							return Val{T: sc.x.load(sc.st, pt.Elem(), sc.valueOf(fr, cell)), Ty: pt.Elem()}
						}
					}
				}
				return Val{T: fr.val(p), Ty: p.Type()}
			}
		}
		for i, f := range fr.fn.FreeVars {
			// a captured variable, by its source name or by position (fv0, fv1, ...: robust against renaming)
			if (f.Name() == name || name == fmt.Sprintf("fv%d", i)) && i < len(fr.fv) {
				return sc.deref(Val{T: fr.fv[i], Ty: f.Type(), ptrToVar: true})
			}
		}
		if v, ok := sc.debugRef(fr, name); ok {
			return v
		}
	}
	if sc.pkg != nil {
		if v, ok := sc.pkgMember(sc.pkg, name); ok {
			return v
		}
	}
	if gm, ok := sc.x.w.GhostMaps[name]; ok {
		return Val{T: sc.x.get(sc.st, sc.ghostComp(gm)), K: "ghost:" + name}
	}
	sc.fail("unknown identifier %q", name)
	return Val{}
}

// state component holding a ghost map
func (sc *Scope) ghostComp(gm *GhostMap) string {
	ks, vs := sc.sortByName(gm.Key), sc.sortByName(gm.Val)
	return fmt.Sprintf("g:%s|(Array %s %s)", gm.Name, ks, vs)
}

func (sc *Scope) sortByName(n string) string {
	t, raw := sc.typeByName(n)
	if t != nil {
		return sc.x.c.sortOf(t)
	}
	return raw
}

// value of spec type named n from a raw term
func (sc *Scope) valOfTypeName(n, term string) Val {
	t, raw := sc.typeByName(n)
	if t != nil {
		if isBool(t) {
			return boolVal(term)
		}
		return Val{T: term, Ty: t}
	}
	switch raw {
	case "Bool":
		return boolVal(term)
	case "Int":
		return Val{T: term, K: "math"}
	}
	return Val{T: term, K: "raw:" + raw}
}

func (sc *Scope) coerceTo(v Val, typeName string) Val {
	t, raw := sc.typeByName(typeName)
	if v.K == "const" {
		if t != nil {
			return sc.convertConst(v, t)
		}
		return sc.mathOf(v)
	}
	if v.K == "nil" && t != nil {
		return Val{T: sc.x.c.zero(t), Ty: t}
	}
	if raw == "Int" && v.K != "math" {
		return sc.mathOf(v)
	}
	return v
}

// captured-by-reference variables: the value is what the pointer points to
func (sc *Scope) deref(v Val) Val {
	if !v.ptrToVar {
		return v
	}
	pt, ok := v.Ty.Underlying().(*types.Pointer)
	if !ok {
		v.ptrToVar = false
		return v
	}
	return Val{T: sc.x.load(sc.st, pt.Elem(), v.T), Ty: pt.Elem()}
}

func (sc *Scope) debugRef(fr *Frame, name string) (Val, bool) {
	var addr ssa.Value
	var vals []ssa.Value
	seen := map[ssa.Value]bool{}
	for _, b := range fr.fn.Blocks {
		for _, in := range b.Instrs {
			d, ok := in.(*ssa.DebugRef)
			if !ok {
				continue
			}
			id, ok := d.Expr.(*ast.Ident)
			if !ok || id.Name != name {
				continue
			}
			// only variables declared in this function
			if obj := d.Object(); obj != nil && obj.Pkg() != nil && obj.Parent() == obj.Pkg().Scope() {
				continue
			}
			// not the field of a selector expression that happens to have this name
			if fv, ok := d.Object().(*types.Var); ok && fv.IsField() {
				continue
			}
			if d.IsAddr {
				addr = d.X
			} else if !seen[d.X] {
				seen[d.X] = true
				vals = append(vals, d.X)
			}
		}
	}
	if addr != nil {
		pt := addr.Type().Underlying().(*types.Pointer)
		return Val{T: sc.x.load(sc.st, pt.Elem(), sc.valueOf(fr, addr)), Ty: pt.Elem()}, true
	}
	if len(vals) == 0 {
		// phi named so in the loop header
		if sc.header != nil {
			for _, in := range sc.header.Instrs {
				if phi, ok := in.(*ssa.Phi); ok && phi.Comment == name {
					return Val{T: sc.valueOf(fr, phi), Ty: phi.Type()}, true
				}
			}
		}
		return Val{}, false
	}
	if sc.header != nil {
		for _, in := range sc.header.Instrs {
			if phi, ok := in.(*ssa.Phi); ok && phi.Comment == name {
				return Val{T: sc.valueOf(fr, phi), Ty: phi.Type()}, true
			}
		}
		// a value computed in the header from phis (range index)
		for _, v := range vals {
			if in, ok := v.(ssa.Instruction); ok && in.Block() == sc.header {
				return Val{T: sc.valueOf(fr, v), Ty: v.Type()}, true
			}
		}
	}
	if len(vals) == 1 {
		return Val{T: sc.valueOf(fr, vals[0]), Ty: vals[0].Type()}, true
	}
	// several SSA values carry this name (the variable is assigned more than once, or shadowed): at a
	// known program point, the one meant is the definition that dominates the point and is closest to it
	if sc.at != nil {
		var best ssa.Value
		bestDepth, bestIdx := -1, -1
		for _, v := range vals {
			in, ok := v.(ssa.Instruction)
			if !ok {
				continue
			}
			b := in.Block()
			if b == nil || !(b == sc.at.Block() || b.Dominates(sc.at.Block())) {
				continue
			}
			idx := instrIndex(b, in)
			if b == sc.at.Block() && idx >= instrIndex(b, sc.at) {
				continue
			}
			d := domDepth(b)
			if d > bestDepth || (d == bestDepth && idx > bestIdx) {
				best, bestDepth, bestIdx = v, d, idx
			}
		}
		if best != nil {
			return Val{T: sc.valueOf(fr, best), Ty: best.Type()}, true
		}
	}
	// several SSA values: usable only if they are constants/params that agree — otherwise ambiguous
	sc.fail("identifier %q is ambiguous at this point (assigned several times)", name)
	return Val{}, false
}

// value of an SSA value at the scope's point: phi overrides first, then pure re-evaluation of header
// instructions that depend on overridden phis, else the frame's environment.
func (sc *Scope) valueOf(fr *Frame, v ssa.Value) string {
	if t, ok := sc.phiOver[v]; ok {
		return t
	}
	if len(sc.phiOver) > 0 {
		if in, ok := v.(ssa.Instruction); ok && in.Block() == sc.header {
			switch in := v.(type) {
			case *ssa.BinOp:
				tmp := &State{Reach: "false", Comp: map[string]string{}}
				return fr.binop(tmp, in.Op, in.X.Type(), in.Y.Type(), sc.valueOf(fr, in.X), sc.valueOf(fr, in.Y), in.Pos())
			case *ssa.Convert:
				if fi, ok := basicInt(in.X.Type()); ok {
					if ti, ok := basicInt(in.Type()); ok && !sc.x.c.Int {
						return extendTo(sc.valueOf(fr, in.X), fi, ti.w)
					}
				}
			case *ssa.ChangeType:
				return sc.valueOf(fr, in.X)
			}
		}
	}
	return fr.val(v)
}

func (sc *Scope) pkgMember(pkg *types.Package, name string) (Val, bool) {
	obj := pkg.Scope().Lookup(name)
	if obj == nil {
		return Val{}, false
	}
	switch o := obj.(type) {
	case *types.Const:
		if o.Val().Kind() == constant.Int {
			n, _ := new(big.Int).SetString(o.Val().ExactString(), 10)
			if b, ok := o.Type().Underlying().(*types.Basic); ok && b.Info()&types.IsUntyped == 0 {
				return sc.convertConst(Val{K: "const", C: n}, o.Type()), true
			}
			return Val{K: "const", C: n}, true
		}
		if o.Val().Kind() == constant.String {
			return Val{T: sc.x.c.strLit(constant.StringVal(o.Val())), Ty: o.Type()}, true
		}
		if o.Val().Kind() == constant.Bool {
			return boolVal(fmt.Sprint(constant.BoolVal(o.Val()))), true
		}
	case *types.Var:
		loc := sc.x.c.globalLoc(ShortName(pkg.Path() + "." + name))
		return Val{T: sc.x.loadOwned(sc.st, o.Type(), loc, "global:"+ShortName(pkg.Path()+"."+name)), Ty: o.Type()}, true
	}
	return Val{}, false
}

// ---- types by name ----------------------------------------------------------------------------------

func (sc *Scope) typeByName(s string) (types.Type, string) {
	s = strings.TrimSpace(s)
	switch s {
	case "Int", "Loc", "Str", "Bool", "Iface", "Slice", "Fn":
		return nil, s
	case "mathint":
		return nil, "Int"
	case "interface{}":
		return types.NewInterfaceType(nil, nil), ""
	}
	if strings.HasPrefix(s, "*") {
		t, _ := sc.typeByName(s[1:])
		if t == nil {
			sc.fail("unknown type %s", s)
		}
		return types.NewPointer(t), ""
	}
	if strings.HasPrefix(s, "[]") {
		t, _ := sc.typeByName(s[2:])
		return types.NewSlice(t), ""
	}
	if strings.HasPrefix(s, "[") {
		i := strings.IndexByte(s, ']')
		n, err := strconv.Atoi(s[1:i])
		if err == nil {
			t, _ := sc.typeByName(s[i+1:])
			return types.NewArray(t, int64(n)), ""
		}
	}
	if obj := types.Universe.Lookup(s); obj != nil {
		if tn, ok := obj.(*types.TypeName); ok {
			return tn.Type(), ""
		}
	}
	pkg := sc.pkg
	name := s
	if i := strings.LastIndexByte(s, '.'); i >= 0 {
		pkg = sc.x.w.PkgByName(sc.pkg, s[:i])
		name = s[i+1:]
	}
	if pkg != nil {
		if obj := pkg.Scope().Lookup(name); obj != nil {
			if tn, ok := obj.(*types.TypeName); ok {
				return tn.Type(), ""
			}
		}
	}
	sc.fail("unknown type %q", s)
	return nil, ""
}

// ---- operators ----------------------------------------------------------------------------------------

func (sc *Scope) convertConst(v Val, t types.Type) Val {
	c := sc.x.c
	if n, ok := isByteArray(t); ok && !c.Int {
		m := new(big.Int).Lsh(big.NewInt(1), uint(8*n))
		k := new(big.Int).Mod(v.C, m)
		return Val{T: fmt.Sprintf("(_ bv%s %d)", k.String(), 8*n), Ty: t}
	}
	if ii, ok := basicInt(t); ok {
		if c.Int {
			return Val{T: intLitBig(v.C.String()), Ty: t}
		}
		m := new(big.Int).Lsh(big.NewInt(1), uint(ii.w))
		n := new(big.Int).Mod(v.C, m)
		return Val{T: fmt.Sprintf("(_ bv%s %d)", n.String(), ii.w), Ty: t}
	}
	sc.fail("cannot use integer constant as %s", t)
	return Val{}
}

func (sc *Scope) mathOf(v Val) Val {
	switch v.K {
	case "const":
		return Val{T: intLitBig(v.C.String()), K: "math"}
	case "math":
		return v
	}
	if ii, ok := basicInt(v.Ty); ok {
		if sc.x.c.Int {
			return Val{T: v.T, K: "math"}
		}
		if ii.signed {
			// signed value of a bit-vector
			return Val{T: ite(sx("bvslt", v.T, bvLit(0, ii.w)), sx("-", sx("bv2nat", v.T), (&big1{}).pow2(ii.w)), sx("bv2nat", v.T)), K: "math"}
		}
		return Val{T: sx("bv2nat", v.T), K: "math"}
	}
	sc.fail("cannot convert %v to a mathematical integer", v.Ty)
	return Val{}
}

// bring two operands to a common type
func (sc *Scope) unify(a, b Val) (Val, Val) {
	switch {
	case a.K == "const" && b.K == "const":
		return a, b
	case a.K == "const" && b.K == "math":
		return sc.mathOf(a), b
	case b.K == "const" && a.K == "math":
		return a, sc.mathOf(b)
	case a.K == "math" && b.K == "" && b.Ty != nil:
		return a, sc.mathOf(b)
	case b.K == "math" && a.K == "" && a.Ty != nil:
		return sc.mathOf(a), b
	case a.K == "const" && b.Ty != nil:
		return sc.convertConst(a, b.Ty), b
	case b.K == "const" && a.Ty != nil:
		return a, sc.convertConst(b, a.Ty)
	case a.K == "nil" && b.Ty != nil:
		return Val{T: sc.x.c.zero(b.Ty), Ty: b.Ty}, b
	case b.K == "nil" && a.Ty != nil:
		return a, Val{T: sc.x.c.zero(a.Ty), Ty: a.Ty}
	}
	return a, b
}

func (sc *Scope) unary(e EUnary) Val {
	c := sc.x.c
	switch e.Op {
	case "!":
		return boolVal(not(sc.evalBool(e.X)))
	case "-":
		v := sc.eval(e.X)
		switch {
		case v.K == "const":
			return Val{K: "const", C: new(big.Int).Neg(v.C)}
		case v.K == "math" || c.Int:
			v.T = sx("-", v.T)
			return v
		}
		v.T = sx("bvneg", v.T)
		return v
	case "^":
		v := sc.eval(e.X)
		if v.K == "" && !c.Int {
			v.T = sx("bvnot", v.T)
			return v
		}
	case "*":
		v := sc.eval(e.X)
		if pt, ok := v.Ty.Underlying().(*types.Pointer); ok {
			return Val{T: sc.x.loadOwned(sc.st, pt.Elem(), v.T, rawOwner(pt.Elem())), Ty: pt.Elem()}
		}
	case "&":
		loc, ty := sc.lvalue(e.X)
		return Val{T: loc, Ty: types.NewPointer(ty)}
	}
	sc.fail("unsupported unary %s", e)
	return Val{}
}

func (sc *Scope) binary(e EBinary) Val {
	c := sc.x.c
	switch e.Op {
	case "&&":
		return boolVal(and(sc.evalBool(e.L), sc.evalBool(e.R)))
	case "||":
		return boolVal(or(sc.evalBool(e.L), sc.evalBool(e.R)))
	case "==>":
		return boolVal(implies(sc.evalBool(e.L), sc.evalBool(e.R)))
	case "<==>":
		return boolVal(eq(sc.evalBool(e.L), sc.evalBool(e.R)))
	case "in":
		k := sc.eval(e.L)
		m := sc.eval(e.R)
		mt, ok := m.Ty.Underlying().(*types.Map)
		if !ok {
			sc.fail("'in' needs a map, got %v", m.Ty)
		}
		if k.K == "const" {
			k = sc.convertConst(k, mt.Key())
		}
		return boolVal(sc.x.mapHas(sc.st, mt, m.T, k.T))
	}
	a, b := sc.eval(e.L), sc.eval(e.R)
	// shifts: count is independent
	if e.Op == "<<" || e.Op == ">>" {
		if a.K == "const" && b.K == "const" {
			if e.Op == "<<" {
				return Val{K: "const", C: new(big.Int).Lsh(a.C, uint(b.C.Int64()))}
			}
			return Val{K: "const", C: new(big.Int).Rsh(a.C, uint(b.C.Int64()))}
		}
		if a.K == "const" {
			sc.fail("shift of untyped constant by non-constant: give the constant a type")
		}
		ii, _ := basicInt(a.Ty)
		if b.K == "const" {
			b = sc.convertConst(b, a.Ty)
		} else if bi, ok := basicInt(b.Ty); ok && bi.w != ii.w {
			b = Val{T: extendTo(b.T, intInfo{bi.w, false}, ii.w), Ty: a.Ty}
		}
		op := "bvshl"
		if e.Op == ">>" {
			op = "bvlshr"
			if ii.signed {
				op = "bvashr"
			}
		}
		return Val{T: sx(op, a.T, b.T), Ty: a.Ty}
	}
	a, b = sc.unify(a, b)
	if a.K == "const" && b.K == "const" {
		r := new(big.Int)
		switch e.Op {
		case "+":
			return Val{K: "const", C: r.Add(a.C, b.C)}
		case "-":
			return Val{K: "const", C: r.Sub(a.C, b.C)}
		case "*":
			return Val{K: "const", C: r.Mul(a.C, b.C)}
		case "/":
			return Val{K: "const", C: r.Quo(a.C, b.C)}
		case "%":
			return Val{K: "const", C: r.Rem(a.C, b.C)}
		case "==":
			return boolVal(fmt.Sprint(a.C.Cmp(b.C) == 0))
		case "!=":
			return boolVal(fmt.Sprint(a.C.Cmp(b.C) != 0))
		case "<":
			return boolVal(fmt.Sprint(a.C.Cmp(b.C) < 0))
		case "<=":
			return boolVal(fmt.Sprint(a.C.Cmp(b.C) <= 0))
		case ">":
			return boolVal(fmt.Sprint(a.C.Cmp(b.C) > 0))
		case ">=":
			return boolVal(fmt.Sprint(a.C.Cmp(b.C) >= 0))
		}
	}
	switch e.Op {
	case "==", "!=":
		var t string
		switch {
		case a.K == "bool" || b.K == "bool" || a.K == "math" || strings.HasPrefix(a.K, "raw:"):
			t = eq(a.T, b.T)
		case a.K == "nil" && b.K == "nil":
			t = "true"
		case a.Ty != nil:
			t = sc.x.equal(a.Ty, a.T, b.T)
		default:
			t = eq(a.T, b.T)
		}
		if e.Op == "!=" {
			t = not(t)
		}
		return boolVal(t)
	}
	math := a.K == "math" || c.Int
	ii, isInt := intInfo{}, false
	if a.Ty != nil {
		ii, isInt = basicInt(a.Ty)
		if n, ok := isByteArray(a.Ty); ok && !isInt && !c.Int {
			ii, isInt = intInfo{8 * n, false}, true
		}
	}
	if !math && !isInt {
		sc.fail("operator %s on non-integer operands in %s", e.Op, e)
	}
	pick := func(s, u string) string {
		if ii.signed {
			return s
		}
		return u
	}
	res := a
	cmp := func(m, s, u string) Val {
		if math {
			return boolVal(sx(m, a.T, b.T))
		}
		return boolVal(sx(pick(s, u), a.T, b.T))
	}
	switch e.Op {
	case "<":
		return cmp("<", "bvslt", "bvult")
	case "<=":
		return cmp("<=", "bvsle", "bvule")
	case ">":
		return cmp(">", "bvsgt", "bvugt")
	case ">=":
		return cmp(">=", "bvsge", "bvuge")
	case "+":
		res.T = sx(map[bool]string{true: "+", false: "bvadd"}[math], a.T, b.T)
	case "-":
		res.T = sx(map[bool]string{true: "-", false: "bvsub"}[math], a.T, b.T)
	case "*":
		res.T = sx(map[bool]string{true: "*", false: "bvmul"}[math], a.T, b.T)
	case "/":
		if math {
			res.T = sx("div", a.T, b.T) // spec-level division is floor division (operands are non-negative in all uses)
		} else {
			res.T = sx(pick("bvsdiv", "bvudiv"), a.T, b.T)
		}
	case "%":
		if math {
			res.T = sx("mod", a.T, b.T)
		} else {
			res.T = sx(pick("bvsrem", "bvurem"), a.T, b.T)
		}
	case "&":
		res.T = sx("bvand", a.T, b.T)
	case "|":
		res.T = sx("bvor", a.T, b.T)
	case "^":
		res.T = sx("bvxor", a.T, b.T)
	case "&^":
		res.T = sx("bvand", a.T, sx("bvnot", b.T))
	default:
		sc.fail("unsupported operator %s", e.Op)
	}
	if math && (e.Op == "&" || e.Op == "|" || e.Op == "^" || e.Op == "&^") {
		sc.fail("bit operator %s on mathematical integers", e.Op)
	}
	return res
}

// ---- selectors, indexing, lvalues -----------------------------------------------------------------------

func (sc *Scope) selectExpr(e ESelect) Val {
	// package-qualified name
	if id, ok := e.X.(EIdent); ok {
		if _, bound := sc.vars[id.Name]; !bound && !sc.isLocalName(id.Name) {
			if pkg := sc.x.w.PkgByName(sc.pkg, id.Name); pkg != nil {
				if v, ok := sc.pkgMember(pkg, e.Field); ok {
					return v
				}
				sc.fail("unknown member %s.%s", id.Name, e.Field)
			}
		}
	}
	v := sc.eval(e.X)
	if v.Ty == nil {
		sc.fail("selector %s on untyped value", e)
	}
	return sc.fieldOfVal(v, e.Field)
}

func (sc *Scope) isLocalName(name string) bool {
	if sc.frame == nil {
		return false
	}
	for _, p := range sc.frame.fn.Params {
		if p.Name() == name {
			return true
		}
	}
	for _, f := range sc.frame.fn.FreeVars {
		if f.Name() == name {
			return true
		}
	}
	return false
}

func (sc *Scope) fieldOfVal(v Val, field string) Val {
	obj, path, _ := types.LookupFieldOrMethod(v.Ty, true, sc.pkgFor(v.Ty), field)
	fv, ok := obj.(*types.Var)
	if !ok || !fv.IsField() {
		sc.fail("no field %s in %v", field, v.Ty)
	}
	cur := v
	for _, i := range path {
		if pt, ok := cur.Ty.Underlying().(*types.Pointer); ok {
			st := pt.Elem().Underlying().(*types.Struct)
			f := st.Field(i)
			cur = Val{T: sc.x.loadOwned(sc.st, f.Type(), fld(cur.T, i), ownerName(pt.Elem())), Ty: f.Type()}
			continue
		}
		st := cur.Ty.Underlying().(*types.Struct)
		cur = Val{T: sc.x.c.fieldOf(st, cur.T, i), Ty: st.Field(i).Type()}
	}
	return cur
}

func (sc *Scope) pkgFor(t types.Type) *types.Package {
	if pt, ok := t.(*types.Pointer); ok {
		t = pt.Elem()
	}
	if n, ok := types.Unalias(t).(*types.Named); ok && n.Obj().Pkg() != nil {
		return n.Obj().Pkg()
	}
	return sc.pkg
}

func (sc *Scope) idxTerm(v Val) string {
	c := sc.x.c
	if v.K == "const" {
		return c.idx(v.C.Int64())
	}
	if v.K == "math" {
		if c.Int {
			return v.T
		}
		sc.fail("mathematical integer used as index in bit-vector mode")
	}
	ii, ok := basicInt(v.Ty)
	if !ok {
		sc.fail("index is not an integer")
	}
	if c.Int {
		return v.T
	}
	return extendTo(v.T, ii, 64)
}

func (sc *Scope) index(e EIndex) Val {
	x := sc.x
	// an element of an array held in memory (a field or variable): read that element, not a copy of the whole array
	if _, isSel := e.X.(ESelect); isSel {
		if loc, ty, ok := sc.tryLvalue(e.X); ok {
			if arr, isArr := types.Unalias(ty).Underlying().(*types.Array); isArr {
				if _, isBytes := isByteArray(ty); !isBytes || x.c.Int {
					return Val{T: x.loadOwned(sc.st, arr.Elem(), elt(loc, sc.idxTerm(sc.eval(e.I))), ""), Ty: arr.Elem()}
				}
			}
		}
	}
	a := sc.eval(e.X)
	if strings.HasPrefix(a.K, "ghost:") {
		gm := x.w.GhostMaps[a.K[len("ghost:"):]]
		k := sc.coerceTo(sc.eval(e.I), gm.Key)
		return sc.valOfTypeName(gm.Val, sx("select", a.T, k.T))
	}
	if a.Ty == nil {
		sc.fail("index of untyped value %s", e)
	}
	switch u := a.Ty.Underlying().(type) {
	case *types.Map:
		k := sc.eval(e.I)
		if k.K == "const" {
			k = sc.convertConst(k, u.Key())
		}
		return Val{T: x.mapGet(sc.st, u, a.T, k.T), Ty: u.Elem()}
	case *types.Array:
		i := sc.eval(e.I)
		if n, ok := isByteArray(a.Ty); ok && !x.c.Int && i.K == "const" {
			return Val{T: byteOf(a.T, n, int(i.C.Int64())), Ty: u.Elem()}
		}
		return Val{T: x.arrayIndex(a.Ty, a.T, sc.idxTerm(i)), Ty: u.Elem()}
	case *types.Pointer:
		if arr, ok := u.Elem().Underlying().(*types.Array); ok {
			return Val{T: x.load(sc.st, arr.Elem(), elt(a.T, sc.idxTerm(sc.eval(e.I)))), Ty: arr.Elem()}
		}
	case *types.Slice:
		return Val{T: x.loadOwned(sc.st, u.Elem(), x.sliceElt(a.T, sc.idxTerm(sc.eval(e.I))), rawOwner(u.Elem())), Ty: u.Elem()}
	case *types.Basic:
		if u.Info()&types.IsString != 0 {
			return Val{T: sx("s_at", a.T, sc.idxTerm(sc.eval(e.I))), Ty: types.Typ[types.Uint8]}
		}
	}
	sc.fail("cannot index %v", a.Ty)
	return Val{}
}

// lvalue: location and type denoted by an expression (for modifies clauses and &e)
func (sc *Scope) lvalue(e Expr) (string, types.Type) {
	x := sc.x
	switch e := e.(type) {
	case EUnary:
		if e.Op == "*" {
			v := sc.eval(e.X)
			if pt, ok := v.Ty.Underlying().(*types.Pointer); ok {
				return v.T, pt.Elem()
			}
		}
	case EIdent:
		// a captured variable
		if v, ok := sc.vars[e.Name]; ok && v.ptrToVar {
			return v.T, v.Ty.Underlying().(*types.Pointer).Elem()
		}
		if v, ok := sc.x.aliases[e.Name]; ok {
			return v.T, v.Ty.Underlying().(*types.Pointer).Elem()
		}
		if fr := sc.frame; fr != nil {
			for i, f := range fr.fn.FreeVars {
				if (f.Name() == e.Name || e.Name == fmt.Sprintf("fv%d", i)) && i < len(fr.fv) {
					return fr.fv[i], f.Type().Underlying().(*types.Pointer).Elem()
				}
			}
			// an addressable local variable
			for _, b := range fr.fn.Blocks {
				for _, in := range b.Instrs {
					if d, ok := in.(*ssa.DebugRef); ok && d.IsAddr {
						if id, ok := d.Expr.(*ast.Ident); ok && id.Name == e.Name && !isFieldObj(d.Object()) {
							return sc.valueOf(fr, d.X), d.X.Type().Underlying().(*types.Pointer).Elem()
						}
					}
				}
			}
		}
		// package-level variable
		if sc.pkg != nil {
			if o, ok := sc.pkg.Scope().Lookup(e.Name).(*types.Var); ok {
				return x.c.globalLoc(ShortName(sc.pkg.Path() + "." + e.Name)), o.Type()
			}
		}
	case ESelect:
		if id, ok := e.X.(EIdent); ok && !sc.isLocalName(id.Name) {
			if _, bound := sc.vars[id.Name]; !bound {
				if pkg := sc.x.w.PkgByName(sc.pkg, id.Name); pkg != nil {
					if o, ok := pkg.Scope().Lookup(e.Field).(*types.Var); ok {
						return x.c.globalLoc(ShortName(pkg.Path() + "." + e.Field)), o.Type()
					}
				}
			}
		}
		var base string
		var bt types.Type
		v, ok := sc.tryEval(e.X)
		if ok && v.Ty != nil {
			if _, isPtr := v.Ty.Underlying().(*types.Pointer); isPtr {
				base, bt = v.T, v.Ty
			}
		}
		if base == "" {
			l, t := sc.lvalue(e.X)
			base, bt = l, types.NewPointer(t)
		}
		obj, path, _ := types.LookupFieldOrMethod(bt, true, sc.pkgFor(bt), e.Field)
		fv, ok := obj.(*types.Var)
		if !ok || !fv.IsField() {
			sc.fail("no field %s in %v", e.Field, bt)
		}
		loc := base
		cur := bt.Underlying().(*types.Pointer).Elem()
		for k, i := range path {
			st := cur.Underlying().(*types.Struct)
			loc = fld(loc, i)
			cur = st.Field(i).Type()
			if k < len(path)-1 {
				if pt, ok := cur.Underlying().(*types.Pointer); ok {
					loc = x.load(sc.st, cur, loc)
					cur = pt.Elem()
				}
			}
		}
		return loc, cur
	case EIndex:
		a, ok := sc.tryEval(e.X)
		if ok && a.Ty != nil {
			switch u := a.Ty.Underlying().(type) {
			case *types.Slice:
				return x.sliceElt(a.T, sc.idxTerm(sc.eval(e.I))), u.Elem()
			case *types.Pointer:
				if arr, ok := u.Elem().Underlying().(*types.Array); ok {
					return elt(a.T, sc.idxTerm(sc.eval(e.I))), arr.Elem()
				}
			}
		}
		l, t := sc.lvalue(e.X)
		if arr, ok := t.Underlying().(*types.Array); ok {
			return elt(l, sc.idxTerm(sc.eval(e.I))), arr.Elem()
		}
	}
	sc.fail("%s does not denote a memory location", e)
	return "", nil
}

func (sc *Scope) tryEval(e Expr) (v Val, ok bool) {
	defer func() {
		if r := recover(); r != nil {
			if _, isEval := r.(evalError); isEval {
				ok = false
				return
			}
			panic(r)
		}
	}()
	return sc.eval(e), true
}

// ---- quantifiers ---------------------------------------------------------------------------------------

func (sc *Scope) quant(e EQuant) Val {
	c := sc.x.c
	// try static expansion over constant integer ranges
	type rng struct{ lo, hi int64 }
	ranges := map[string]rng{}
	guard := e.Body
	if b, ok := e.Body.(EBinary); ok && (b.Op == "==>" || (!e.Forall && b.Op == "&&")) {
		guard = b.L
	}
	var conj func(x Expr, out *[]Expr)
	conj = func(x Expr, out *[]Expr) {
		if b, ok := x.(EBinary); ok && b.Op == "&&" {
			conj(b.L, out)
			conj(b.R, out)
			return
		}
		*out = append(*out, x)
	}
	var cs []Expr
	conj(guard, &cs)
	constOf := func(x Expr) (int64, bool) {
		v, ok := sc.tryEval(x)
		if ok && v.K == "const" {
			return v.C.Int64(), true
		}
		return 0, false
	}
	for _, qv := range e.Vars {
		lo, hi := int64(-1<<62), int64(1<<62)
		for _, cj := range cs {
			b, ok := cj.(EBinary)
			if !ok {
				continue
			}
			li, lIsV := b.L.(EIdent)
			ri, rIsV := b.R.(EIdent)
			switch {
			case rIsV && ri.Name == qv.Name && b.Op == "<=":
				if k, ok := constOf(b.L); ok && k > lo {
					lo = k
				}
			case rIsV && ri.Name == qv.Name && b.Op == "<":
				if k, ok := constOf(b.L); ok && k+1 > lo {
					lo = k + 1
				}
			case lIsV && li.Name == qv.Name && b.Op == "<":
				if k, ok := constOf(b.R); ok && k < hi {
					hi = k
				}
			case lIsV && li.Name == qv.Name && b.Op == "<=":
				if k, ok := constOf(b.R); ok && k+1 < hi {
					hi = k + 1
				}
			}
		}
		if lo > -(1<<62) && hi < (1<<62) {
			ranges[qv.Name] = rng{lo, hi}
		}
	}
	expandable := len(ranges) == len(e.Vars)
	total := int64(1)
	if expandable {
		for _, r := range ranges {
			n := r.hi - r.lo
			if n < 0 {
				n = 0
			}
			total *= n
			if total > 4096 {
				expandable = false
				break
			}
		}
	}
	if expandable {
		var parts []string
		var rec func(i int, s *Scope)
		rec = func(i int, s *Scope) {
			if i == len(e.Vars) {
				parts = append(parts, s.evalBool(e.Body))
				return
			}
			r := ranges[e.Vars[i].Name]
			for k := r.lo; k < r.hi; k++ {
				v := Val{K: "const", C: big.NewInt(k)}
				if ty, _ := sc.typeByName(e.Vars[i].Type); ty != nil {
					if _, isInt := basicInt(ty); isInt {
						v = sc.convertConst(v, ty)
					}
				}
				rec(i+1, s.bind(e.Vars[i].Name, v))
			}
		}
		rec(0, sc)
		if e.Forall {
			return boolVal(and(parts...))
		}
		return boolVal(or(parts...))
	}
	// genuine quantifier
	s := sc
	var binders []string
	for _, qv := range e.Vars {
		ty, raw := sc.typeByName(qv.Type)
		n := c.fresh(qv.Name)
		c.boundVars[n] = true
		defer delete(c.boundVars, n)
		if ty != nil {
			binders = append(binders, fmt.Sprintf("(%s %s)", n, c.sortOf(ty)))
			s = s.bind(qv.Name, Val{T: n, Ty: ty})
		} else {
			binders = append(binders, fmt.Sprintf("(%s %s)", n, raw))
			k := "raw:" + raw
			if raw == "Int" {
				k = "math"
			} else if raw == "Bool" {
				k = "bool"
			}
			s = s.bind(qv.Name, Val{T: n, K: k})
		}
	}
	body := s.evalBool(e.Body)
	q := "exists"
	if e.Forall {
		q = "forall"
	}
	return boolVal(fmt.Sprintf("(%s (%s) %s)", q, strings.Join(binders, " "), body))
}

func isFieldObj(o types.Object) bool {
	v, ok := o.(*types.Var)
	return ok && v.IsField()
}

// paramCell: the local cell go/ssa spills parameter p into (when the body assigns to it or takes its address): the Alloc
// whose first store is the parameter itself
func paramCell(fn *ssa.Function, p *ssa.Parameter) *ssa.Alloc {
	refs := p.Referrers()
	if refs == nil {
		return nil
	}
	for _, r := range *refs {
		if st, ok := r.(*ssa.Store); ok && st.Val == p {
			if a, ok := st.Addr.(*ssa.Alloc); ok && a.Comment == p.Name() {
				// a cell that is only ever written by this spill (the parameter is captured by closures but never
				// re-assigned) always holds the parameter's value: the name keeps denoting the parameter
				if n, esc := cellUses(fn, a, map[*ssa.Function]bool{}); n == 1 && !esc {
					return nil
				}
				return a
			}
		}
	}
	return nil
}

// uniqueIntPhi: the only integer-typed phi of a loop header that stands for a source variable (not the hidden range index)
func uniqueIntPhi(h *ssa.BasicBlock) *ssa.Phi {
	var found *ssa.Phi
	for _, in := range h.Instrs {
		phi, ok := in.(*ssa.Phi)
		if !ok {
			break
		}
		if phi.Comment == "rangeindex" {
			continue
		}
		if _, isInt := basicInt(phi.Type()); !isInt {
			continue
		}
		if found != nil {
			return nil
		}
		found = phi
	}
	return found
}
