package govc

import (
	"fmt"
	"go/types"
	"math/big"
	"strconv"
	"strings"

	"golang.org/x/tools/go/ssa"
)

var convNames = map[string]types.BasicKind{"int": types.Int, "int8": types.Int8, "int16": types.Int16, "int32": types.Int32, "int64": types.Int64,
	"uint": types.Uint, "uint8": types.Uint8, "byte": types.Uint8, "uint16": types.Uint16, "uint32": types.Uint32, "uint64": types.Uint64}

func (sc *Scope) call(e ECall) Val {
	x := sc.x
	c := x.c
	argN := func(n int) {
		if len(e.Args) != n {
			sc.fail("%s expects %d arguments", e.Fun, n)
		}
	}
	switch e.Fun {
	case "old":
		argN(1)
		o := sc.with(sc.old)
		o.header, o.phiOver = nil, nil // names denote their values at function entry
		o.inOld = true
		return o.eval(e.Args[0])
	case "len":
		argN(1)
		v := sc.eval(e.Args[0])
		it := types.Typ[types.Int]
		switch u := v.Ty.Underlying().(type) {
		case *types.Slice:
			return Val{T: sx("sl_len", v.T), Ty: it}
		case *types.Basic:
			return Val{T: sx("s_len", v.T), Ty: it}
		case *types.Map:
			return Val{T: x.mapLen(sc.st, v.T), Ty: it}
		case *types.Array:
			return Val{K: "const", C: big.NewInt(u.Len())}
		case *types.Pointer:
			if a, ok := u.Elem().Underlying().(*types.Array); ok {
				return Val{K: "const", C: big.NewInt(a.Len())}
			}
		}
		sc.fail("len of %v", v.Ty)
	case "cap":
		argN(1)
		v := sc.eval(e.Args[0])
		return Val{T: sx("sl_cap", v.T), Ty: types.Typ[types.Int]}
	case "count":
		argN(1)
		l, ok := e.Args[0].(ELit)
		if !ok || l.Kind != "string" {
			sc.fail("count expects a string literal")
		}
		s, _ := strconv.Unquote(l.Val)
		return Val{T: x.get(sc.st, "cnt:"+s), K: "math"}
	case "held", "wheld", "rheld":
		argN(1)
		loc, _ := sc.lvalue(e.Args[0])
		x.noteMutex(loc)
		cur := sx("select", x.get(sc.st, "lock"), loc)
		switch e.Fun {
		case "held":
			return boolVal(not(eq(cur, "0")))
		case "wheld":
			return boolVal(eq(cur, "1"))
		}
		return boolVal(eq(cur, "2"))
	case "math":
		argN(1)
		return sc.mathOf(sc.eval(e.Args[0]))
	case "abytes":
		// abytes(a): the content of the byte array variable/field a as a byte string (what a[:] denotes)
		argN(1)
		loc, ty := sc.lvalue(e.Args[0])
		n, ok := isByteArray(ty)
		if !ok {
			sc.fail("abytes needs a byte array location")
		}
		return Val{T: x.bstrOf(sc.st, sx("mk_slice", loc, c.idx(0), c.idx(int64(n)), c.idx(int64(n)))), Ty: types.Typ[types.String]}
	case "visited":
		// visited(k): in a loop invariant of a range over a map, whether the iteration has already produced key k
		argN(1)
		if sc.header == nil || sc.frame == nil {
			sc.fail("visited() is only meaningful in the invariant of a loop over a map")
		}
		for _, in := range sc.header.Instrs {
			if nx, ok := in.(*ssa.Next); ok && !nx.IsString {
				if rg, ok := nx.Iter.(*ssa.Range); ok {
					if mt, ok := rg.X.Type().Underlying().(*types.Map); ok {
						k := sc.eval(e.Args[0])
						if k.K == "const" {
							k = sc.convertConst(k, mt.Key())
						}
						return boolVal(sx("select", x.get(sc.st, mapVisitedKey(nx.Iter, c.sortOf(mt.Key()))), k.T))
					}
				}
			}
		}
		sc.fail("visited() used outside a loop over a map")
	case "recorded":
		// recorded("name"): the result most recently returned by a callee whose contract says "option records name"
		argN(1)
		l, ok := e.Args[0].(ELit)
		if !ok || l.Kind != "string" {
			sc.fail("recorded expects a string literal")
		}
		name, _ := strconv.Unquote(l.Val)
		rt, ok := x.recTypes[name]
		if !ok {
			sc.fail("nothing is recorded under %q on any path to this point", name)
		}
		t := x.get(sc.st, "g:rec:"+name+"|"+c.sortOf(rt))
		if isBool(rt) {
			return boolVal(t)
		}
		return Val{T: t, Ty: rt}
	case "fn", "boundfn":
		// fn("key"): the function value of the named function or closure; boundfn("key", x): the method value x.M
		if len(e.Args) < 1 {
			sc.fail("%s expects a function key", e.Fun)
		}
		l, ok := e.Args[0].(ELit)
		if !ok || l.Kind != "string" {
			sc.fail("%s expects a string literal", e.Fun)
		}
		key, _ := strconv.Unquote(l.Val)
		if _, known := x.w.Funcs[key]; !known {
			sc.fail("%s: no function %q in the program", e.Fun, key)
		}
		if e.Fun == "fn" {
			argN(1)
			return Val{T: c.fnConst(key), K: "raw:Fn"}
		}
		argN(2)
		r := sc.eval(e.Args[1])
		return Val{T: c.boundFn(key, c.sortOf(r.Ty), r.T), K: "raw:Fn"}
	case "selected", "offers":
		// selected(ch): the function's (last, in program order) select statement completed with the case on channel ch;
		// offers(ch): that select has a case on channel ch
		argN(1)
		ch := sc.eval(e.Args[0])
		ls := x.lastSel
		if ls == nil {
			sc.fail("%s(): no select statement has been executed", e.Fun)
		}
		var ds []string
		for i, t := range ls.chans {
			if e.Fun == "selected" {
				ds = append(ds, and(eq(t, ch.T), eq(ls.idx, ls.lits[i])))
			} else {
				ds = append(ds, eq(t, ch.T))
			}
		}
		return boolVal(or(ds...))
	case "lastnow":
		// lastnow(): the value returned by the most recent time.Now() call on this path
		argN(0)
		tt := x.timeType()
		if tt == nil {
			sc.fail("lastnow: package time is not loaded")
		}
		return Val{T: x.get(sc.st, "g:lastnow|"+c.sortOf(tt)), Ty: tt}
	case "ult", "ule", "ugt", "uge", "slt", "sle":
		argN(2)
		a, b := sc.unify(sc.eval(e.Args[0]), sc.eval(e.Args[1]))
		return boolVal(sx("bv"+e.Fun, a.T, b.T))
	case "isnil":
		argN(1)
		v := sc.eval(e.Args[0])
		return boolVal(x.equal(v.Ty, v.T, c.zero(v.Ty)))
	case "typeis":
		// typeis(x, T): dynamic type of interface value x is T
		argN(2)
		v := sc.eval(e.Args[0])
		ty, _ := sc.typeByName(typeArgText(e.Args[1]))
		return boolVal(eq(sx("itag", v.T), fmt.Sprint(c.typeTag(ty))))
	case "unbox":
		argN(2)
		v := sc.eval(e.Args[0])
		ty, _ := sc.typeByName(typeArgText(e.Args[1]))
		return Val{T: c.unbox(ty, v.T), Ty: ty}
	case "fresh":
		// fresh(p): p was allocated during this call
		argN(1)
		v := sc.eval(e.Args[0])
		return boolVal(and(not(eq(v.T, "nil")), sx(">=", sx("ref", v.T), x.get(sc.old, "alloc"))))
	case "allocated":
		argN(1)
		v := sc.eval(e.Args[0])
		return boolVal(sx("<", sx("ref", v.T), x.get(sc.st, "alloc")))
	}
	if k, ok := convNames[e.Fun]; ok {
		argN(1)
		v := sc.eval(e.Args[0])
		to := types.Typ[k]
		if v.K == "const" {
			return sc.convertConst(v, to)
		}
		fi, ok := basicInt(v.Ty)
		if !ok {
			sc.fail("conversion of %v to %s", v.Ty, e.Fun)
		}
		ti, _ := basicInt(to)
		if c.Int {
			return Val{T: v.T, Ty: to}
		}
		return Val{T: extendTo(v.T, fi, ti.w), Ty: to}
	}
	if f, ok := specFuncs[e.Fun]; ok {
		var args []Val
		for _, a := range e.Args {
			args = append(args, sc.eval(a))
		}
		return f(sc, args)
	}
	// method-like pure function on an interface or named type: .Name(recv, args...)
	if strings.HasPrefix(e.Fun, ".") {
		recv := sc.eval(e.Args[0])
		return sc.pureMethod(recv, e.Fun[1:], e.Args[1:])
	}
	// user-defined spec function (macro): bind parameters, evaluate the body
	if sd, ok := x.w.SpecDefs[e.Fun]; ok {
		argN(len(sd.Params))
		inner := &Scope{x: x, vars: map[string]Val{}, st: sc.st, old: sc.old, pkg: sc.pkg}
		for i, p := range sd.Params {
			v := sc.eval(e.Args[i])
			pt, raw := sc.typeByName(p.Type)
			if v.K == "const" {
				if pt != nil {
					v = sc.convertConst(v, pt)
				} else if raw == "Int" {
					v = sc.mathOf(v)
				}
			}
			if v.K == "nil" && pt != nil {
				v = Val{T: c.zero(pt), Ty: pt}
			}
			if pt != nil && v.Ty != nil {
				v.Ty = pt
			}
			inner.vars[p.Name] = v
		}
		return inner.eval(sd.Body)
	}
	// user-declared uninterpreted spec function: declared via "spec" entries
	if uf, ok := x.w.SpecUFs[e.Fun]; ok {
		var ts []string
		for i, a := range e.Args {
			v := sc.eval(a)
			if v.K == "const" {
				pt, _ := sc.typeByName(uf.Params[i])
				if pt != nil {
					v = sc.convertConst(v, pt)
				} else {
					v = sc.mathOf(v)
				}
			}
			ts = append(ts, v.T)
		}
		return sc.applyUF(uf, ts)
	}
	// x.M(args) where x is a variable in scope: pure method of x
	if i := strings.IndexByte(e.Fun, '.'); i > 0 {
		if recv, ok := sc.tryEval(EIdent{e.Fun[:i]}); ok && recv.Ty != nil {
			return sc.pureMethod(recv, e.Fun[i+1:], e.Args)
		}
	}
	// T(x): conversion to a named type with the same representation (e.g. a named string type)
	if len(e.Args) == 1 {
		if t := sc.tryType(e.Fun); t != nil {
			v := sc.eval(e.Args[0])
			if v.Ty != nil && types.Identical(v.Ty.Underlying(), t.Underlying()) {
				v.Ty = t
				return v
			}
			if v.K == "const" {
				return sc.convertConst(v, t)
			}
		}
	}
	sc.fail("unknown function %s", e.Fun)
	return Val{}
}

func (sc *Scope) tryType(name string) (t types.Type) {
	defer func() {
		if r := recover(); r != nil {
			t = nil
		}
	}()
	t, _ = sc.typeByName(name)
	return t
}

type SpecUF struct {
	Name   string
	Params []string
	Result string
}

func (sc *Scope) applyUF(uf *SpecUF, args []string) Val {
	c := sc.x.c
	var ps []string
	for _, p := range uf.Params {
		t, raw := sc.typeByName(p)
		if t != nil {
			ps = append(ps, c.sortOf(t))
		} else {
			ps = append(ps, raw)
		}
	}
	rt, rraw := sc.typeByName(uf.Result)
	rs := rraw
	if rt != nil {
		rs = c.sortOf(rt)
	}
	n := "uf_" + mangle(uf.Name)
	first := !c.declOf["uf:"+n]
	c.decl("uf:"+n, fmt.Sprintf("(declare-fun %s (%s) %s)", n, strings.Join(ps, " "), rs))
	if first {
		// axioms that mention this function become hypotheses of this query context
		for _, lm := range sc.x.w.Globals.Lemmas {
			if !lm.Assumed || c.specDone["axiom:"+lm.Name] || !strings.Contains(lm.Clause.Text, uf.Name+"(") {
				continue
			}
			c.specDone["axiom:"+lm.Name] = true
			ax := &Scope{x: sc.x, vars: map[string]Val{}, st: sc.st, old: sc.old, pkg: sc.pkg}
			c.assume(ax.evalBool(lm.Clause.E))
			c.AssumedUse["axiom "+lm.Name]++
		}
	}
	t := n
	if len(args) > 0 {
		// Go's == on interface values treats all nil interfaces as one value: an uninterpreted function of an
		// interface argument must not tell them apart either
		na := make([]string, len(args))
		for i, a := range args {
			na[i] = a
			if i < len(ps) && ps[i] == "Iface" && a != "(mk_iface 0 box0)" {
				na[i] = ite(eq(sx("itag", a), "0"), "(mk_iface 0 box0)", a)
			}
		}
		t = sx(n, na...)
	}
	if rt != nil {
		if isBool(rt) {
			return boolVal(t)
		}
		return Val{T: t, Ty: rt}
	}
	switch rs {
	case "Bool":
		return boolVal(t)
	case "Int":
		return Val{T: t, K: "math"}
	}
	return Val{T: t, K: "raw:" + rs}
}

// pure method of a receiver: resolved to the uninterpreted function of its contract (option uf)
func (sc *Scope) pureMethod(recv Val, name string, rest []Expr) Val {
	x := sc.x
	if recv.Ty == nil {
		sc.fail("method %s on untyped value", name)
	}
	key := ShortName(fmt.Sprintf("(%s).%s", recv.Ty.String(), name))
	obj, _, _ := types.LookupFieldOrMethod(recv.Ty, true, sc.pkgFor(recv.Ty), name)
	fn, ok := obj.(*types.Func)
	if !ok {
		sc.fail("no method %s on %v", name, recv.Ty)
	}
	sig := fn.Type().(*types.Signature)
	ct := x.w.Contracts[key]
	if ct == nil || ct.Options["uf"] == "" && !hasOpt(ct, "uf") {
		sc.fail("method %s has no 'option uf' contract (needed to use it in specifications)", key)
	}
	args := []string{recv.T}
	for i, a := range rest {
		v := sc.eval(a)
		if v.K == "const" {
			v = sc.convertConst(v, sig.Params().At(i).Type())
		}
		args = append(args, v.T)
	}
	t := x.methodUF(key, recv.Ty, sig, args)
	if !x.c.mentionsBound(t) {
		x.noteOutsideRef(sig.Results().At(0).Type(), t)
	}
	return Val{T: t, Ty: sig.Results().At(0).Type()}
}

func hasOpt(ct *FnContract, k string) bool { _, ok := ct.Options[k]; return ok }

func (x *Exec) methodUF(key string, recvTy types.Type, sig *types.Signature, args []string) string {
	c := x.c
	n := "m_" + mangle(key)
	ps := []string{c.sortOf(recvTy)}
	for i := 0; i < sig.Params().Len(); i++ {
		ps = append(ps, c.sortOf(sig.Params().At(i).Type()))
	}
	c.decl("uf:"+n, fmt.Sprintf("(declare-fun %s (%s) %s)", n, strings.Join(ps, " "), c.sortOf(sig.Results().At(0).Type())))
	return sx(n, args...)
}

// ---- built-in spec functions -----------------------------------------------------------------------------

var specFuncs = map[string]func(sc *Scope, args []Val) Val{}

func init() {
	// bitlen(x): number of significant bits of a byte array read as a big-endian unsigned integer
	specFuncs["bitlen"] = func(sc *Scope, a []Val) Val {
		c := sc.x.c
		n, ok := isByteArray(a[0].Ty)
		if !ok || c.Int {
			sc.fail("bitlen needs a byte array in bit-vector mode")
		}
		w := 8 * n
		name := fmt.Sprintf("bitlen%d", w)
		if !c.specDone[name] {
			c.specDone[name] = true
			var b strings.Builder
			fmt.Fprintf(&b, "(define-fun %s ((x (_ BitVec %d))) (_ BitVec 64)\n", name, w)
			for i := w - 1; i >= 0; i-- {
				fmt.Fprintf(&b, " (ite (= ((_ extract %d %d) x) #b1) %s", i, i, bvLit(uint64(i+1), 64))
			}
			b.WriteString(" " + bvLit(0, 64))
			b.WriteString(strings.Repeat(")", w))
			b.WriteString(")")
			c.decl("spec:"+name, b.String())
		}
		return Val{T: sx(name, a[0].T), Ty: types.Typ[types.Int]}
	}
	// bitat(x, i): bit i of byte array x, bit 0 being the most significant bit of byte 0
	specFuncs["bitat"] = func(sc *Scope, a []Val) Val {
		c := sc.x.c
		n, ok := isByteArray(a[0].Ty)
		if !ok || c.Int {
			sc.fail("bitat needs a byte array in bit-vector mode")
		}
		w := 8 * n
		if a[1].K == "const" {
			i := int(a[1].C.Int64())
			return boolVal(eq(sx(fmt.Sprintf("(_ extract %d %d)", w-1-i, w-1-i), a[0].T), "#b1"))
		}
		i := sc.idxTerm(a[1])
		sh := sx("bvsub", bvLit(uint64(w-1), 64), i)
		var shw string
		if w > 64 {
			shw = sx(fmt.Sprintf("(_ zero_extend %d)", w-64), sh)
		} else {
			shw = sx(fmt.Sprintf("(_ extract %d 0)", w-1), sh)
		}
		return boolVal(eq(sx("(_ extract 0 0)", sx("bvlshr", a[0].T, shw)), "#b1"))
	}
	// bytes20(a): identity marker, documents that a [20]byte is read as an unsigned 160-bit integer
	specFuncs["u160"] = func(sc *Scope, a []Val) Val { return a[0] }
	// setbit(x, i, b): x with bit i (msb-first) set to b
	specFuncs["withbit"] = func(sc *Scope, a []Val) Val {
		c := sc.x.c
		n, _ := isByteArray(a[0].Ty)
		w := 8 * n
		i := sc.idxTerm(a[2-1])
		sh := sx("bvsub", bvLit(uint64(w-1), 64), i)
		var shw string
		if w > 64 {
			shw = sx(fmt.Sprintf("(_ zero_extend %d)", w-64), sh)
		} else {
			shw = sx(fmt.Sprintf("(_ extract %d 0)", w-1), sh)
		}
		one := fmt.Sprintf("(_ bv1 %d)", w)
		m := sx("bvshl", one, shw)
		_ = c
		return Val{T: ite(a[2].T, sx("bvor", a[0].T, m), sx("bvand", a[0].T, sx("bvnot", m))), Ty: a[0].Ty}
	}
	specFuncs["implies"] = func(sc *Scope, a []Val) Val { return boolVal(implies(a[0].T, a[1].T)) }
}
