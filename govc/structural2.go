package govc

import (
	"fmt"
	"go/types"
	"strings"

	"golang.org/x/tools/go/ssa"
)

// is v the map held in field tname.fname (loaded directly from that field)?
func isFieldMap(v ssa.Value, tname, fname string) bool {
	u, ok := v.(*ssa.UnOp)
	if !ok {
		return false
	}
	fa, ok := u.X.(*ssa.FieldAddr)
	if !ok {
		return false
	}
	stt := fa.X.Type().Underlying().(*types.Pointer).Elem()
	return ownerName(stt) == tname && stt.Underlying().(*types.Struct).Field(fa.Field).Name() == fname
}

func mapWritesOf(w *World, name, field string, allowed []string) StructResult {
	res := StructResult{Name: name, What: fmt.Sprintf("every insertion into or deletion from the map %s is in {%s}", field, strings.Join(allowed, ", ")), OK: true}
	i := strings.LastIndex(field, ".")
	tname, fname := field[:i], field[i+1:]
	var bad []string
	found := 0
	for _, f := range moduleFuncsAll(w) {
		fk := FuncKey(f)
		for _, b := range f.Blocks {
			for _, in := range b.Instrs {
				hit := false
				switch in := in.(type) {
				case *ssa.MapUpdate:
					hit = isFieldMap(in.Map, tname, fname)
				case *ssa.Call:
					if bi, ok := in.Call.Value.(*ssa.Builtin); ok && bi.Name() == "delete" && len(in.Call.Args) > 0 {
						hit = isFieldMap(in.Call.Args[0], tname, fname)
					}
					if bi, ok := in.Call.Value.(*ssa.Builtin); ok && bi.Name() == "clear" && len(in.Call.Args) > 0 {
						hit = isFieldMap(in.Call.Args[0], tname, fname)
					}
				}
				if hit {
					found++
					if !inSet(allowed, fk) {
						bad = append(bad, fmt.Sprintf("%s (%s)", fk, w.Prog.Fset.Position(in.Pos())))
					}
				}
			}
		}
	}
	if len(bad) > 0 {
		res.OK = false
		res.Detail = "map writes outside the declared set: " + strings.Join(bad, "; ")
	} else {
		res.Detail = fmt.Sprintf("%d map writes, all in the declared set", found)
	}
	return res
}
