package govc

import (
	"fmt"
	"go/types"
	"strings"

	"golang.org/x/tools/go/ssa"
)

func init() {
	// prefixlen(a, b): number of leading bits (msb first) on which the two byte arrays agree
	specFuncs["prefixlen"] = func(sc *Scope, a []Val) Val {
		c := sc.x.c
		n, ok := isByteArray(a[0].Ty)
		if !ok || c.Int {
			sc.fail("prefixlen needs byte arrays in bit-vector mode")
		}
		w := 8 * n
		name := fmt.Sprintf("prefixlen%d", w)
		if !c.specDone[name] {
			c.specDone[name] = true
			var b strings.Builder
			fmt.Fprintf(&b, "(define-fun %s ((x (_ BitVec %d)) (y (_ BitVec %d))) (_ BitVec 64)\n", name, w, w)
			for i := 0; i < w; i++ {
				bit := w - 1 - i
				fmt.Fprintf(&b, " (ite (not (= ((_ extract %d %d) x) ((_ extract %d %d) y))) %s", bit, bit, bit, bit, bvLit(uint64(i), 64))
			}
			b.WriteString(" " + bvLit(uint64(w), 64))
			b.WriteString(strings.Repeat(")", w))
			b.WriteString(")")
			c.decl("spec:"+name, b.String())
		}
		x, y := sc.unify(a[0], a[1])
		return Val{T: sx(name, x.T, y.T), Ty: types.Typ[types.Int]}
	}
}

func init() {
	// sameobj(a, b): the pointers / slices a and b refer into the same allocated object
	specFuncs["sameobj"] = func(sc *Scope, a []Val) Val {
		loc := func(v Val) string {
			if v.Ty != nil {
				if _, ok := v.Ty.Underlying().(*types.Slice); ok {
					return sx("sl_arr", v.T)
				}
			}
			return v.T
		}
		return boolVal(eq(sx("ref", loc(a[0])), sx("ref", loc(a[1]))))
	}
}

func init() {
	// bstr(b): the content of byte slice b as a mathematical byte string (sort Str). It is an
	// uninterpreted function of the byte heap and the slice value; its length is tied to len(b).
	specFuncs["bstr"] = func(sc *Scope, a []Val) Val {
		return Val{T: sc.x.bstrOf(sc.st, a[0].T), Ty: types.Typ[types.String]}
	}
	// slen(s): length of a mathematical byte string, as an int
	specFuncs["slen"] = func(sc *Scope, a []Val) Val {
		return Val{T: sx("s_len", a[0].T), Ty: types.Typ[types.Int]}
	}
}

func (x *Exec) bstrOf(st *State, s string) string {
	c := x.c
	bs := c.sortOf(types.Typ[types.Uint8])
	c.decl("uf:bstr", fmt.Sprintf("(declare-fun bstr4 ((Array Loc %[1]s) Loc %[2]s %[2]s) Str)\n(define-fun bstr ((h (Array Loc %[1]s)) (s Slice)) Str (bstr4 h (sl_arr s) (sl_off s) (sl_len s)))", bs, c.idxSort()))
	if c.mentionsBound(s) {
		// under a quantifier the length fact cannot be stated for the bound term: the general axiom is added instead
		c.decl("uf:bstr-ax", fmt.Sprintf("(assert (forall ((h (Array Loc %[1]s)) (a Loc) (o %[2]s) (n %[2]s)) (! (= (s_len (bstr4 h a o n)) n) :pattern ((bstr4 h a o n)))))", bs, c.idxSort()))
	} else {
		c.assume(eq(sx("s_len", sx("bstr", x.get(st, "H:"+bs), s)), sx("sl_len", s)))
	}
	h := x.get(st, "H:"+bs)
	t := sx("bstr", h, s)
	// frame facts along the definition chain of the heap: a write to another object leaves the content of s unchanged
	if !c.mentionsBound(s) {
		key := h + "|" + s
		if c.bstrDone == nil {
			c.bstrDone = map[string]bool{}
		}
		cur := h
		for i := 0; i < 600 && !c.bstrDone[key]; i++ {
			c.bstrDone[key] = true
			parent, objRef := heapStep(cur)
			if parent == "" {
				if p2, ok := x.heapStepTH(cur, "H:"+bs); ok {
					c.assume(eq(sx("bstr", cur, s), sx("bstr", p2, s)))
					cur = p2
					key = cur + "|" + s
					continue
				}
				break
			}
			c.assume(implies(not(eq(objRef, sx("ref", sx("sl_arr", s)))), eq(sx("bstr", cur, s), sx("bstr", parent, s))))
			cur = parent
			key = cur + "|" + s
		}
	}
	return t
}

func instrIndex(b *ssa.BasicBlock, in ssa.Instruction) int {
	for i, x := range b.Instrs {
		if x == in {
			return i
		}
	}
	return -1
}

func domDepth(b *ssa.BasicBlock) int {
	d := 0
	for b.Idom() != nil {
		b = b.Idom()
		d++
	}
	return d
}

func (x *Exec) timeType() types.Type {
	for _, p := range x.w.Prog.AllPackages() {
		if p.Pkg.Path() == "time" {
			if o := p.Pkg.Scope().Lookup("Time"); o != nil {
				return o.Type()
			}
		}
	}
	return nil
}

func init() {
	// scat(a, b): concatenation of mathematical byte strings
	specFuncs["scat"] = func(sc *Scope, a []Val) Val {
		return Val{T: sc.x.scat(a[0].T, a[1].T), Ty: types.Typ[types.String]}
	}
}

func (x *Exec) scat(a, b string) string {
	c := x.c
	plus := "bvadd"
	zero := c.idx(0)
	if c.Int {
		plus = "+"
	}
	c.decl("uf:s_cat", fmt.Sprintf("(declare-fun s_cat (Str Str) Str)\n(assert (forall ((a Str) (b Str)) (! (and (= (s_len (s_cat a b)) (%s (s_len a) (s_len b))) (=> (= (s_len b) %s) (= (s_cat a b) a)) (=> (= (s_len a) %s) (= (s_cat a b) b))) :pattern ((s_cat a b)))))", plus, zero, zero))
	t := sx("s_cat", a, b)
	return t
}

// applyGhost executes the contract's ghost map assignments on st; keys and values are evaluated in sc
func (fr *Frame) applyGhost(st *State, ct *FnContract, sc *Scope) {
	x := fr.x
	for _, ga := range ct.Ghost {
		gm, ok := x.w.GhostMaps[ga.Map]
		if !ok {
			sc.fail("ghost map %s is not declared", ga.Map)
		}
		comp := sc.ghostComp(gm)
		k := sc.coerceTo(sc.eval(ga.Key), gm.Key)
		v := sc.coerceTo(sc.eval(ga.Val), gm.Val)
		x.set(st, comp, sx("store", x.get(st, comp), k.T, v.T))
	}
}

// heapStep: if heap array h is defined as its parent with one object written (a store, or a bulk write /
// object havoc recorded in heapParents), return the parent and the ref of the written object.
var heapParents map[string][2]string // name -> {parent, objRef}

func heapStep(h string) (parent, objRef string) {
	if p, ok := heapParents[h]; ok {
		return p[0], p[1]
	}
	d, ok := activeDefs[h]
	if !ok || !strings.HasPrefix(d, "(store ") {
		return "", ""
	}
	parts := splitTop(d[len("(store ") : len(d)-1])
	if len(parts) != 3 {
		return "", ""
	}
	return parts[0], sx("ref", parts[1])
}

func (c *Ctx) mentionsBound(t string) bool {
	for b := range c.boundVars {
		if strings.Contains(t, b) {
			return true
		}
	}
	return false
}

func init() {
	// subslice(s, lo, hi): the slice s[lo:hi]
	specFuncs["subslice"] = func(sc *Scope, a []Val) Val {
		x := sc.x
		lo, hi := sc.idxTerm(a[1]), sc.idxTerm(a[2])
		s := a[0].T
		return Val{T: sx("mk_slice", sx("sl_arr", s), x.addIdx(sx("sl_off", s), lo), x.subIdx(hi, lo), x.subIdx(sx("sl_cap", s), lo)), Ty: a[0].Ty}
	}
}

func (sc *Scope) tryLvalue(e Expr) (loc string, ty types.Type, ok bool) {
	defer func() {
		if r := recover(); r != nil {
			if _, isEval := r.(evalError); isEval {
				ok = false
				return
			}
			panic(r)
		}
	}()
	loc, ty = sc.lvalue(e)
	return loc, ty, true
}
