package govc

import (
	"fmt"
	"go/types"
	"strings"
)

func init() {
	// prefixlen(a, b): number of leading bits (msb first) on which the two byte arrays agree
	specFuncs["prefixlen"] = func(sc *Scope, a []Val) Val {
		c := sc.x.c
		n, ok := isByteArray(a[0].Ty)
		if !ok || c.Int {
			sc.fail("prefixlen needs byte arrays in bit-vector mode")
		}
		w := 8 * n
		name := fmt.Sprintf("prefixlen%d", w)
		if !c.specDone[name] {
			c.specDone[name] = true
			var b strings.Builder
			fmt.Fprintf(&b, "(define-fun %s ((x (_ BitVec %d)) (y (_ BitVec %d))) (_ BitVec 64)\n", name, w, w)
			for i := 0; i < w; i++ {
				bit := w - 1 - i
				fmt.Fprintf(&b, " (ite (not (= ((_ extract %d %d) x) ((_ extract %d %d) y))) %s", bit, bit, bit, bit, bvLit(uint64(i), 64))
			}
			b.WriteString(" " + bvLit(uint64(w), 64))
			b.WriteString(strings.Repeat(")", w))
			b.WriteString(")")
			c.decl("spec:"+name, b.String())
		}
		x, y := sc.unify(a[0], a[1])
		return Val{T: sx(name, x.T, y.T), Ty: types.Typ[types.Int]}
	}
}

func init() {
	// sameobj(a, b): the pointers / slices a and b refer into the same allocated object
	specFuncs["sameobj"] = func(sc *Scope, a []Val) Val {
		loc := func(v Val) string {
			if v.Ty != nil {
				if _, ok := v.Ty.Underlying().(*types.Slice); ok {
					return sx("sl_arr", v.T)
				}
			}
			return v.T
		}
		return boolVal(eq(sx("ref", loc(a[0])), sx("ref", loc(a[1]))))
	}
}
