package govc

import (
	"fmt"
	"go/token"
	"go/types"
	"sort"
	"strings"
)

// Ctx is one verification unit: all obligations of one function under contract share the declaration
// list and the ordered hypothesis list; obligation k sees hypotheses [0, cut_k).
type Ctx struct {
	fnList []string // function constants declared so far (pairwise distinct)
	W      *World
	Int    bool // arith int mode (mathematical integers + overflow obligations); default bit-vectors
	decls  []string
	declOf map[string]bool
	body   []string
	Obls   []*Obligation
	n      int

	structs    map[string]*structInfo
	typeTags   map[string]int
	tagTypes   []types.Type
	strLits    map[string]string
	strLitList []string
	boxed      map[string]bool
	globals    map[string]int
	fnConsts   map[string]bool
	specDone   map[string]bool

	defs       map[string]string
	bstrDone   map[string]bool
	boundVars  map[string]bool
	Unmodelled map[string]int // calls havoced for lack of a contract: name -> count
	AssumedUse map[string]int // assumed (trusted) contracts used: name -> count
	Inlined    map[string]int
	Notes      []string
}

type Obligation struct {
	Name   string
	Kind   string
	Func   string
	Clause string
	Pos    token.Position
	cut    int
	ndecl  int
	Goal   string // must hold (already includes reach => ...)
	Values []ModelReq

	// results
	Runs    []SolverRun
	Result  string // unsat (discharged) | sat | unknown
	By      string
	Seconds float64
	File    string
	Model   map[string]string
}

type ModelReq struct {
	Label string
	Term  string
}

type structInfo struct {
	name   string
	st     *types.Struct
	fields []string // selector names
}

func NewCtx(w *World, intMode bool) *Ctx {
	c := &Ctx{W: w, Int: intMode, declOf: map[string]bool{}, structs: map[string]*structInfo{}, typeTags: map[string]int{},
		strLits: map[string]string{}, boxed: map[string]bool{}, globals: map[string]int{}, fnConsts: map[string]bool{}, specDone: map[string]bool{},
		Unmodelled: map[string]int{}, AssumedUse: map[string]int{}, Inlined: map[string]int{}, defs: map[string]string{}}
	activeDefs = c.defs
	heapParents = map[string][2]string{}
	c.boundVars = map[string]bool{}
	return c
}

func (c *Ctx) fresh(prefix string) string {
	c.n++
	return fmt.Sprintf("%s!%d", prefix, c.n)
}

func (c *Ctx) decl(key, text string) {
	if c.declOf[key] {
		return
	}
	c.declOf[key] = true
	c.decls = append(c.decls, text)
}

func (c *Ctx) declConst(name, sort string) string {
	c.decl("c:"+name, fmt.Sprintf("(declare-const %s %s)", name, sort))
	return name
}

func (c *Ctx) freshConst(prefix, sort string) string {
	return c.declConst(c.fresh(prefix), sort)
}

func (c *Ctx) define(prefix, sort, term string) string {
	// keep atoms as they are
	if !strings.ContainsAny(term, "( ") {
		return term
	}
	n := c.fresh(prefix)
	c.body = append(c.body, fmt.Sprintf("(define-fun %s () %s %s)", n, sort, term))
	if c.defs != nil && (len(term) < 400 || strings.HasPrefix(term, "(store ")) {
		c.defs[n] = term
	}
	return n
}

func (c *Ctx) assume(term string) {
	if term == "true" {
		return
	}
	c.body = append(c.body, "(assert "+term+")")
}

func (c *Ctx) comment(s string) {
	c.body = append(c.body, "; "+strings.ReplaceAll(s, "\n", " "))
}

func (c *Ctx) oblige(name, kind, fn, clause string, pos token.Position, reach, goal string, vals []ModelReq) *Obligation {
	// unique names
	base := name
	for i := 2; ; i++ {
		dup := false
		for _, o := range c.Obls {
			if o.Name == name {
				dup = true
				break
			}
		}
		if !dup {
			break
		}
		name = fmt.Sprintf("%s~%d", base, i)
	}
	o := &Obligation{Name: name, Kind: kind, Func: fn, Clause: clause, Pos: pos, cut: len(c.body), ndecl: len(c.decls), Goal: implies(reach, goal), Values: vals}
	c.Obls = append(c.Obls, o)
	return o
}

// ---- sorts -----------------------------------------------------------------------------------

func (c *Ctx) idxSort() string {
	if c.Int {
		return "Int"
	}
	return "(_ BitVec 64)"
}

func (c *Ctx) prelude() string {
	var b strings.Builder
	b.WriteString("(set-option :produce-models true)\n(set-logic ALL)\n")
	fmt.Fprintf(&b, "(declare-datatypes ((Path 0)) (((proot) (pf (pf_b Path) (pf_k Int)) (pi (pi_b Path) (pi_i %s)))))\n", c.idxSort())
	b.WriteString("(declare-datatypes ((Loc 0)) (((nil) (at (ref Int) (path Path)))))\n")
	fmt.Fprintf(&b, "(declare-datatypes ((Slice 0)) (((mk_slice (sl_arr Loc) (sl_off %[1]s) (sl_len %[1]s) (sl_cap %[1]s)))))\n", c.idxSort())
	if c.Int {
		b.WriteString("(define-sort Byte () Int)\n")
	}
	b.WriteString("(declare-sort Str 0)\n")
	fmt.Fprintf(&b, "(declare-fun s_len (Str) %s)\n", c.idxSort())
	fmt.Fprintf(&b, "(declare-fun s_at (Str %s) (_ BitVec 8))\n", c.idxSort())
	b.WriteString("(declare-sort Box 0)\n(declare-datatypes ((Iface 0)) (((mk_iface (itag Int) (ibox Box)))))\n")
	b.WriteString("(declare-sort Fn 0)\n(declare-sort Chan 0)\n(declare-sort F64 0)\n(declare-datatypes ((Unit 0)) (((unit))))\n")
	b.WriteString("(declare-const nil_fn Fn)\n(declare-const nil_chan Chan)\n(declare-const box0 Box)\n")
	b.WriteString("(declare-const alloc_0 Int)\n(assert (>= alloc_0 0))\n")
	// the selector ref is unspecified on nil in SMT-LIB: pin it to a value no allocation has, so that a location
	// computed from a nil pointer (on a path that never uses it) cannot coincide with a real object
	b.WriteString("(assert (= (ref nil) (- 1)))\n")
	return b.String()
}

type intInfo struct {
	w      int
	signed bool
}

func basicInt(t types.Type) (intInfo, bool) {
	b, ok := t.Underlying().(*types.Basic)
	if !ok {
		return intInfo{}, false
	}
	switch b.Kind() {
	case types.Int, types.Int64, types.UntypedInt, types.UntypedRune:
		return intInfo{64, true}, true
	case types.Int8:
		return intInfo{8, true}, true
	case types.Int16:
		return intInfo{16, true}, true
	case types.Int32:
		return intInfo{32, true}, true
	case types.Uint, types.Uint64, types.Uintptr:
		return intInfo{64, false}, true
	case types.Uint8:
		return intInfo{8, false}, true
	case types.Uint16:
		return intInfo{16, false}, true
	case types.Uint32:
		return intInfo{32, false}, true
	}
	return intInfo{}, false
}

func isByteArray(t types.Type) (n int, ok bool) {
	a, ok := t.Underlying().(*types.Array)
	if !ok {
		return 0, false
	}
	if ii, ok := basicInt(a.Elem()); ok && ii.w == 8 && a.Len() >= 1 && a.Len() <= 64 {
		return int(a.Len()), true
	}
	return 0, false
}

func (c *Ctx) sortOf(t types.Type) string {
	t = types.Unalias(t)
	switch u := t.Underlying().(type) {
	case *types.Basic:
		if ii, ok := basicInt(u); ok {
			if c.Int {
				if ii.w == 8 && !ii.signed {
					return "Byte" // alias of Int: gives bytes their own heap component
				}
				return "Int"
			}
			return fmt.Sprintf("(_ BitVec %d)", ii.w)
		}
		switch u.Kind() {
		case types.Bool, types.UntypedBool:
			return "Bool"
		case types.String, types.UntypedString:
			return "Str"
		case types.UnsafePointer, types.UntypedNil:
			return "Loc"
		case types.Float32, types.Float64, types.UntypedFloat, types.Complex128, types.Complex64:
			return "F64"
		}
	case *types.Pointer, *types.Map:
		return "Loc"
	case *types.Chan:
		return "Chan"
	case *types.Signature:
		return "Fn"
	case *types.Interface:
		if _, isTP := t.(*types.TypeParam); isTP {
			n := "TP_" + mangle(t.String())
			c.decl("sort:"+n, fmt.Sprintf("(declare-sort %s 0)", n))
			return n
		}
		return "Iface"
	case *types.Slice:
		return "Slice"
	case *types.Array:
		if n, ok := isByteArray(t); ok && !c.Int {
			return fmt.Sprintf("(_ BitVec %d)", 8*n)
		}
		return fmt.Sprintf("(Array %s %s)", c.idxSort(), c.sortOf(u.Elem()))
	case *types.Struct:
		return c.structSort(u).name
	case *types.Tuple:
		return "Unit"
	}
	panic(fmt.Sprintf("sortOf: unsupported type %v (%T)", t, t.Underlying()))
}

func (c *Ctx) structSort(st *types.Struct) *structInfo {
	if st.NumFields() == 0 {
		return &structInfo{name: "Unit", st: st}
	}
	key := st.String()
	if si, ok := c.structs[key]; ok {
		return si
	}
	si := &structInfo{name: fmt.Sprintf("S%d", len(c.structs)), st: st}
	c.structs[key] = si
	var fs []string
	for i := 0; i < st.NumFields(); i++ {
		sel := fmt.Sprintf("%s_f%d", si.name, i)
		si.fields = append(si.fields, sel)
		fs = append(fs, fmt.Sprintf("(%s %s)", sel, c.sortOf(st.Field(i).Type())))
	}
	short := key
	if len(short) > 200 {
		short = short[:200] + "..."
	}
	c.decl("struct:"+si.name, fmt.Sprintf("; %s = %s\n(declare-datatypes ((%s 0)) (((mk_%s %s))))", si.name, strings.ReplaceAll(short, "\n", " "), si.name, si.name, strings.Join(fs, " ")))
	return si
}

func (c *Ctx) mkStruct(st *types.Struct, fields []string) string {
	si := c.structSort(st)
	if st.NumFields() == 0 {
		return "unit"
	}
	return sx("mk_"+si.name, fields...)
}

func (c *Ctx) fieldOf(st *types.Struct, v string, i int) string {
	si := c.structSort(st)
	// simplify projection of constructor
	pre := "(mk_" + si.name + " "
	if strings.HasPrefix(v, pre) {
		parts := splitTop(v[len(pre) : len(v)-1])
		if len(parts) == st.NumFields() {
			return parts[i]
		}
	}
	return sx(si.fields[i], v)
}

func splitTop(s string) []string {
	var out []string
	d := 0
	start := -1
	for i := 0; i < len(s); i++ {
		ch := s[i]
		switch {
		case ch == '(':
			if d == 0 && start < 0 {
				start = i
			}
			d++
		case ch == ')':
			d--
			if d == 0 {
				out = append(out, s[start:i+1])
				start = -1
			}
		case ch == ' ' || ch == '\n':
			if d == 0 && start >= 0 {
				out = append(out, s[start:i])
				start = -1
			}
		case ch == '|' && d == 0 && start < 0:
			j := strings.IndexByte(s[i+1:], '|')
			out = append(out, s[i:i+j+2])
			i += j + 1
		default:
			if d == 0 && start < 0 {
				start = i
			}
		}
	}
	if start >= 0 {
		out = append(out, s[start:])
	}
	return out
}

// zero value of a type as an SMT term
func (c *Ctx) zero(t types.Type) string {
	t = types.Unalias(t)
	switch u := t.Underlying().(type) {
	case *types.Basic:
		if ii, ok := basicInt(u); ok {
			return c.intLit(0, ii)
		}
		switch u.Kind() {
		case types.Bool, types.UntypedBool:
			return "false"
		case types.String, types.UntypedString:
			return c.strLit("")
		case types.UnsafePointer, types.UntypedNil:
			return "nil"
		default:
			return c.declConst("f64_zero", "F64")
		}
	case *types.Pointer, *types.Map:
		return "nil"
	case *types.Chan:
		return "nil_chan"
	case *types.Signature:
		return "nil_fn"
	case *types.Interface:
		if _, isTP := t.(*types.TypeParam); isTP {
			return c.declConst("zero_"+c.sortOf(t), c.sortOf(t))
		}
		return "(mk_iface 0 box0)"
	case *types.Slice:
		return sx("mk_slice", "nil", c.idx(0), c.idx(0), c.idx(0))
	case *types.Array:
		if n, ok := isByteArray(t); ok && !c.Int {
			return bvLitBig0(8 * n)
		}
		return sx("(as const "+c.sortOf(t)+")", c.zero(u.Elem()))
	case *types.Struct:
		var fs []string
		for i := 0; i < u.NumFields(); i++ {
			fs = append(fs, c.zero(u.Field(i).Type()))
		}
		return c.mkStruct(u, fs)
	}
	panic(fmt.Sprintf("zero: unsupported %v", t))
}

func bvLitBig0(w int) string {
	if w%4 == 0 {
		return "#x" + strings.Repeat("0", w/4)
	}
	return fmt.Sprintf("(_ bv0 %d)", w)
}

func (c *Ctx) intLit(v int64, ii intInfo) string {
	if c.Int {
		return intLit(v)
	}
	return bvLit(uint64(v), ii.w)
}

func (c *Ctx) idx(v int64) string {
	if c.Int {
		return intLit(v)
	}
	return bvLit(uint64(v), 64)
}

// string literals: distinct constants with known length and (for short ones) known content
func (c *Ctx) strLit(s string) string {
	if n, ok := c.strLits[s]; ok {
		return n
	}
	n := fmt.Sprintf("lit_%d", len(c.strLits))
	c.strLits[s] = n
	c.strLitList = append(c.strLitList, s)
	var b strings.Builder
	fmt.Fprintf(&b, "; %s = %q\n(declare-const %s Str)\n(assert (= (s_len %s) %s))", n, trunc(s, 60), n, n, c.idx(int64(len(s))))
	if len(s) <= 40 {
		for i := 0; i < len(s); i++ {
			fmt.Fprintf(&b, "\n(assert (= (s_at %s %s) %s))", n, c.idx(int64(i)), bvLit(uint64(s[i]), 8))
		}
	}
	c.decl("lit:"+n, b.String())
	return n
}

func trunc(s string, n int) string {
	if len(s) > n {
		return s[:n] + "..."
	}
	return s
}

// distinctness of string literals, type tags: emitted at query time
func (c *Ctx) lateAxioms() string {
	var b strings.Builder
	if len(c.strLits) > 1 {
		var ns []string
		for _, n := range c.strLits {
			ns = append(ns, n)
		}
		sort.Strings(ns)
		fmt.Fprintf(&b, "(assert (distinct %s))\n", strings.Join(ns, " "))
	}
	return b.String()
}

func (c *Ctx) typeTag(t types.Type) int {
	t = types.Unalias(t)
	k := t.String()
	if tag, ok := c.typeTags[k]; ok {
		return tag
	}
	tag := len(c.typeTags) + 1
	c.typeTags[k] = tag
	c.tagTypes = append(c.tagTypes, t)
	return tag
}

func (c *Ctx) boxFns(sort string) (box, unbox string) {
	m := mangle(sort)
	box, unbox = "box_"+m, "unbox_"+m
	if !c.boxed[sort] {
		c.boxed[sort] = true
		c.decl("box:"+sort, fmt.Sprintf("(declare-fun %s (%s) Box)\n(declare-fun %s (Box) %s)", box, sort, unbox, sort))
	}
	return
}

func (c *Ctx) mkIface(t types.Type, v string) string {
	if types.IsInterface(t) {
		return v
	}
	s := c.sortOf(t)
	box, unbox := c.boxFns(s)
	b := sx(box, v)
	c.assume(eq(sx(unbox, b), v))
	return sx("mk_iface", fmt.Sprint(c.typeTag(t)), b)
}

func (c *Ctx) unbox(t types.Type, iface string) string {
	s := c.sortOf(t)
	_, unbox := c.boxFns(s)
	return sx(unbox, sx("ibox", iface))
}

func (c *Ctx) globalLoc(name string) string {
	k, ok := c.globals[name]
	if !ok {
		k = len(c.globals) + 1
		c.globals[name] = k
	}
	return fmt.Sprintf("(at (- %d) proot)", k)
}

func (c *Ctx) fnConst(name string) string {
	n := "fn_" + mangle(name)
	if !c.fnConsts[n] {
		c.fnConsts[n] = true
		txt := fmt.Sprintf("(declare-const %s Fn)\n(assert (not (= %s nil_fn)))", n, n)
		// different functions are different function values
		for _, o := range c.fnList {
			txt += fmt.Sprintf("\n(assert (not (= %s %s)))", n, o)
		}
		c.fnList = append(c.fnList, n)
		c.decl("fn:"+n, txt)
	}
	return n
}

// Query text for one obligation
func (c *Ctx) Query(o *Obligation) string {
	var b strings.Builder
	b.WriteString(c.prelude())
	fmt.Fprintf(&b, "; obligation %s\n; clause: %s\n", o.Name, strings.ReplaceAll(o.Clause, "\n", " "))
	for _, d := range c.decls {
		b.WriteString(d)
		b.WriteString("\n")
	}
	b.WriteString(c.lateAxioms())
	for _, h := range c.body[:o.cut] {
		b.WriteString(h)
		b.WriteString("\n")
	}
	fmt.Fprintf(&b, "(assert (not %s))\n(check-sat)\n", o.Goal)
	for _, v := range o.Values {
		fmt.Fprintf(&b, "(get-value (%s))\n", v.Term)
	}
	return b.String()
}

// boundFn: the function value of a bound method (x.M used as a value): determined by the method and the receiver
func (c *Ctx) boundFn(method, recvSort, recv string) string {
	n := "boundfn_" + mangle(method)
	if !c.fnConsts[n] {
		c.fnConsts[n] = true
		c.decl("fn:"+n, fmt.Sprintf("(declare-fun %s (%s) Fn)\n(assert (forall ((r %s)) (! (not (= (%s r) nil_fn)) :pattern ((%s r)))))", n, recvSort, recvSort, n, n))
	}
	return sx(n, recv)
}
