package govc

import (
	"fmt"
	"go/types"
	"sort"

	"golang.org/x/tools/go/ssa"
)

// Quantifier-free bulk updates of heap components. A heap component is an (Array Loc T); a bulk
// update (append, copy, []byte(s), make) is expressed as a lambda over Loc that recognises the
// locations of the affected elements structurally (Path is a datatype with selectors), so that no
// quantified frame/content axioms are needed. z3 (both versions) decides these; cvc5 1.0 rejects
// lambda terms and simply does not contribute to such queries.

type pstep struct {
	field int    // >= 0: struct field
	index string // != "": constant array index term
}

type leafPath struct {
	steps []pstep
	sort  string
}

// leaf locations of one element of type t, relative to the element's own location
func (x *Exec) leafPaths(t types.Type, prefix []pstep, out *[]leafPath) {
	t = types.Unalias(t)
	switch u := t.Underlying().(type) {
	case *types.Struct:
		for i := 0; i < u.NumFields(); i++ {
			x.leafPaths(u.Field(i).Type(), append(append([]pstep{}, prefix...), pstep{field: i}), out)
		}
		return
	case *types.Array:
		if n, ok := isByteArray(t); ok && !x.c.Int {
			for k := 0; k < n; k++ {
				*out = append(*out, leafPath{append(append([]pstep{}, prefix...), pstep{field: -1, index: x.c.idx(int64(k))}), "(_ BitVec 8)"})
			}
			return
		}
		if u.Len() > maxArrayExpand {
			return
		}
		for k := int64(0); k < u.Len(); k++ {
			x.leafPaths(u.Elem(), append(append([]pstep{}, prefix...), pstep{field: -1, index: x.c.idx(k)}), out)
		}
		return
	}
	*out = append(*out, leafPath{append([]pstep{}, prefix...), x.c.sortOf(t)})
}

func applySteps(loc string, steps []pstep) string {
	for _, s := range steps {
		if s.field >= 0 {
			loc = fld(loc, s.field)
		} else {
			loc = elt(loc, s.index)
		}
	}
	return loc
}

// matchLeaf: conditions under which Loc variable l is the leaf `steps` of element e (returned) of the
// array object whose base location is arr
func matchLeaf(l, arr string, steps []pstep) (cond []string, elemIdx string) {
	p := sx("path", l)
	cond = append(cond, sx("(_ is at)", l), eq(sx("ref", l), sx("ref", arr)))
	for i := len(steps) - 1; i >= 0; i-- {
		s := steps[i]
		if s.field >= 0 {
			cond = append(cond, sx("(_ is pf)", p), eq(sx("pf_k", p), fmt.Sprint(s.field)))
			p = sx("pf_b", p)
		} else {
			cond = append(cond, sx("(_ is pi)", p), eq(sx("pi_i", p), s.index))
			p = sx("pi_b", p)
		}
	}
	cond = append(cond, sx("(_ is pi)", p), eq(sx("pi_b", p), sx("path", arr)))
	return cond, sx("pi_i", p)
}

// bulkWrite sets elements [off, off+n) of array object arr (element type elem) to the values given by
// src: for element number i (0-based within the range) and a leaf, src returns the term of that leaf's
// new value (evaluated against the pre-state heaps, which it receives). Leaves for which src returns
// "" are left unchanged.
func (x *Exec) bulkWrite(st *State, elem types.Type, arr, off, n string, src func(i string, lp leafPath, pre map[string]string) string) {
	c := x.c
	var lps []leafPath
	x.leafPaths(elem, nil, &lps)
	bySort := map[string][]leafPath{}
	for _, lp := range lps {
		bySort[lp.sort] = append(bySort[lp.sort], lp)
	}
	var sorts []string
	for s := range bySort {
		sorts = append(sorts, s)
	}
	sort.Strings(sorts)
	pre := map[string]string{}
	for _, s := range sorts {
		pre[s] = x.get(st, "H:"+s)
	}
	// other sorts may be read by src (e.g. copying from a string needs none; from slices the same sorts)
	for _, s := range sorts {
		key := "H:" + s
		h0 := pre[s]
		l := c.fresh("l")
		body := sx("select", h0, l)
		for k := len(bySort[s]) - 1; k >= 0; k-- {
			lp := bySort[s][k]
			cond, e := matchLeaf(l, arr, lp.steps)
			i := x.subIdx(e, off)
			v := src(i, lp, pre)
			if v == "" {
				continue
			}
			cond = append(cond, x.leIdx(off, e), x.ltIdx(i, n))
			body = ite(and(cond...), v, body)
		}
		st.Comp[key] = c.define(mangle(key)+"_bulk", x.compSort(key), fmt.Sprintf("(lambda ((%s Loc)) %s)", l, body))
		heapParents[st.Comp[key]] = [2]string{h0, sx("ref", arr)}
	}
}

// havocObject: every location of the object arr (all leaf sorts of t) gets an arbitrary value; everything
// else is unchanged.
func (x *Exec) havocObject(st *State, sorts map[string]bool, arr string) {
	c := x.c
	var ks []string
	for s := range sorts {
		ks = append(ks, s)
	}
	sort.Strings(ks)
	for _, s := range ks {
		key := "H:" + s
		h0 := x.get(st, key)
		hn := c.freshConst(mangle(key)+"_obj", x.compSort(key))
		l := c.fresh("l")
		st.Comp[key] = c.define(mangle(key)+"_hv", x.compSort(key),
			fmt.Sprintf("(lambda ((%s Loc)) %s)", l, ite(and(sx("(_ is at)", l), eq(sx("ref", l), sx("ref", arr))), sx("select", hn, l), sx("select", h0, l))))
		heapParents[st.Comp[key]] = [2]string{h0, sx("ref", arr)}
	}
}

// element source: leaf lp of element i of slice s, read from the pre-state heaps
func (x *Exec) sliceLeaf(s, i string, lp leafPath, pre map[string]string) string {
	return sx("select", pre[lp.sort], applySteps(x.sliceElt(s, i), lp.steps))
}

func zeroOfSort(c *Ctx, s string) string {
	switch s {
	case "Bool":
		return "false"
	case "Int", "Byte":
		return "0"
	case "Loc":
		return "nil"
	case "Slice":
		return sx("mk_slice", "nil", c.idx(0), c.idx(0), c.idx(0))
	case "Iface":
		return "(mk_iface 0 box0)"
	case "Fn":
		return "nil_fn"
	case "Chan":
		return "nil_chan"
	case "Str":
		return c.strLit("")
	case "F64":
		return c.declConst("f64_zero", "F64")
	}
	var w int
	if _, err := fmt.Sscanf(s, "(_ BitVec %d)", &w); err == nil {
		return bvLitBig0(w)
	}
	return c.freshConst("zero", s)
}

// notPrivate: a reference obtained from outside (a call result, a load, a received value) is never one
// of the non-escaping stack objects of the frames being executed (go/ssa marks those Alloc.Heap == false)
func (x *Exec) notPrivate(ref string) string {
	var cs []string
	for _, p := range x.privateRefs {
		cs = append(cs, not(eq(ref, p)))
	}
	return and(cs...)
}

// noteOutsideRef: the value v (a specification-level method result: what some object outside reports) never
// refers to a non-escaping stack object of the executing frames, whichever is created first
func (x *Exec) noteOutsideRef(t types.Type, v string) {
	var ref string
	switch types.Unalias(t).Underlying().(type) {
	case *types.Pointer, *types.Map:
		ref = sx("ref", v)
	case *types.Slice:
		ref = sx("ref", sx("sl_arr", v))
	default:
		return
	}
	for _, o := range x.outsideRefs {
		if o == ref {
			return
		}
	}
	x.outsideRefs = append(x.outsideRefs, ref)
	x.c.assume(x.notPrivate(ref))
}

// assumeIntRange: in integer mode a value of a Go integer type lies within the range of that type (type invariant
// of inputs and of heap cells); for struct values, field by field
func (x *Exec) assumeIntRange(t types.Type, v string) {
	if !x.c.Int {
		return
	}
	t = types.Unalias(t)
	if st, ok := t.Underlying().(*types.Struct); ok {
		for i := 0; i < st.NumFields(); i++ {
			x.assumeIntRange(st.Field(i).Type(), x.c.fieldOf(st, v, i))
		}
		return
	}
	if ii, ok := basicInt(t); ok {
		lo, hi := intRange(ii)
		x.c.assume(and(sx("<=", lo, v), sx("<=", v, hi)))
	}
}

// state component counting the elements a map iteration has produced (ghost)
func mapIterKey(v ssa.Value) string {
	fn := ""
	if in, ok := v.(ssa.Instruction); ok && in.Parent() != nil {
		fn = mangle(in.Parent().String())
	}
	return "g:iter:" + fn + "." + v.Name() + "|IDX"
}

// ghost set of keys a map iteration has produced
func mapVisitedKey(v ssa.Value, keySort string) string {
	fn := ""
	if in, ok := v.(ssa.Instruction); ok && in.Parent() != nil {
		fn = mangle(in.Parent().String())
	}
	return "g:vis:" + fn + "." + v.Name() + "|(Array " + keySort + " Bool)"
}
