package govc

import (
	"fmt"
	"go/types"
	"sort"

	"golang.org/x/tools/go/ssa"
)

type loopInfo struct {
	n      int
	lc     *LoopContract
	header *ssa.BasicBlock
}

func (fr *Frame) loopContract(n int) *LoopContract {
	if fr.ct == nil {
		return nil
	}
	return fr.ct.Loops[n]
}

func (fr *Frame) invName(kind string, n int, cl *Clause, i int) string {
	nm := cl.Name
	if nm == "" {
		nm = fmt.Sprint(i + 1)
	}
	if fr.top {
		return fmt.Sprintf("%s#%s:loop%d:%s", fr.x.target, kind, n, nm)
	}
	return fmt.Sprintf("%s#%s:%s:loop%d:%s", fr.x.target, kind, fr.prefix, n, nm)
}

// loopCut: check invariants on entry, havoc what the loop may change, assume invariants.
func (fr *Frame) loopCut(h *ssa.BasicBlock, n int, body map[*ssa.BasicBlock]bool, entry *State, phiVals map[*ssa.Phi]string) *State {
	x := fr.x
	c := x.c
	lc := fr.loopContract(n)
	c.comment(fmt.Sprintf("loop %d of %s: cut at block %d", n, fr.key, h.Index))
	if lc != nil {
		over := map[ssa.Value]string{}
		for p, v := range phiVals {
			over[p] = v
		}
		sc := fr.scope(entry, fr.entry)
		sc.phiOver, sc.header = over, h
		sc.at = h.Instrs[0]
		for i, cl := range lc.Invariants {
			g := fr.evalClause(sc, cl)
			c.oblige(fr.invName("inv-init", n, cl, i), "inv-init", x.target, "invariant "+cl.Text, fr.pos(h.Instrs[0].Pos()), entry.Reach, g, x.topReqs)
		}
	}
	st := entry.clone()
	fr.havocLoop(st, h, body, lc, entry)
	if fr.heads == nil {
		fr.heads = map[*ssa.BasicBlock]*State{}
	}
	fr.heads[h] = st.clone()
	var phis []*ssa.Phi
	for _, in := range h.Instrs {
		if p, ok := in.(*ssa.Phi); ok {
			phis = append(phis, p)
		}
	}
	for _, p := range phis {
		v := c.freshConst(p.Name()+"_"+mangle(p.Comment), c.sortOf(p.Type()))
		fr.env[p] = v
		x.assumeAllocatedDeep(st, p.Type(), v)
		if p.Comment == "rangeindex" {
			// the hidden index of a range loop starts at -1 and is incremented while below the length: by
			// construction of the SSA it never falls below -1 (and cannot wrap)
			ii, _ := basicInt(p.Type())
			if c.Int {
				c.assume(implies(st.Reach, sx("<=", "(- 1)", v)))
			} else {
				c.assume(implies(st.Reach, and(sx("bvsle", c.intLit(-1, ii), v), sx("bvslt", v, c.intLit(1<<62, ii)))))
			}
		}
	}
	if lc != nil {
		sc := fr.scope(st, fr.entry)
		sc.header = h
		sc.at = h.Instrs[0]
		sc.phiOver = map[ssa.Value]string{}
		for _, p := range phis {
			sc.phiOver[p] = fr.env[p]
		}
		for _, cl := range lc.Invariants {
			c.assume(implies(st.Reach, fr.evalClause(sc, cl)))
		}
	}
	return st
}

func (fr *Frame) loopBack(from, h *ssa.BasicBlock, es *State) {
	x := fr.x
	n := fr.loopOf[h]
	lc := fr.loopContract(n)
	if lc == nil {
		return
	}
	over := map[ssa.Value]string{}
	for _, in := range h.Instrs {
		p, ok := in.(*ssa.Phi)
		if !ok {
			break
		}
		for pi, bp := range h.Preds {
			if bp == from {
				over[p] = fr.val(p.Edges[pi])
			}
		}
	}
	sc := fr.scope(es, fr.entry)
	sc.phiOver, sc.header = over, h
	sc.at = h.Instrs[0]
	for i, cl := range lc.Invariants {
		g := fr.evalClause(sc, cl)
		x.c.oblige(fr.invName("inv-pres", n, cl, i), "inv-pres", x.target, "invariant "+cl.Text, fr.pos(from.Instrs[len(from.Instrs)-1].Pos()), es.Reach, g, x.topReqs)
	}
	if len(lc.Modifies) > 0 {
		// the explicit loop modifies clause is checked: one iteration changes nothing else that
		// existed at the loop head
		head := fr.heads[h]
		hs := fr.scope(head, fr.entry)
		hs.at = h.Instrs[0]
		pre := x.target + "#loop-frame:loop" + fmt.Sprint(n)
		if !fr.top {
			pre = x.target + "#loop-frame:" + fr.prefix + ":loop" + fmt.Sprint(n)
		}
		x.frameCheck(fr, lc.Modifies, hs, head, es, x.get(head, "alloc"), pre, "loop modifies clause")
	}
}

func (fr *Frame) evalClause(sc *Scope, cl *Clause) (t string) {
	defer func() {
		if r := recover(); r != nil {
			if ee, ok := r.(evalError); ok {
				panic(evalError{fmt.Sprintf("%s:%d: %s: %s", cl.File, cl.Line, cl.Text, ee.msg)})
			}
			panic(r)
		}
	}()
	return sc.evalBool(cl.E)
}

// havocLoop: everything the loop body may write gets an arbitrary value at the loop head.
func (fr *Frame) havocLoop(st *State, h *ssa.BasicBlock, body map[*ssa.BasicBlock]bool, lc *LoopContract, entry *State) {
	x := fr.x
	c := x.c
	explicit := lc != nil && len(lc.Modifies) > 0
	if explicit {
		sc := fr.scope(entry, fr.entry)
		sc.at = h.Instrs[0]
		for _, m := range lc.Modifies {
			x.havocRegion(st, sc, m.E)
		}
	}
	fp := &footprint{sorts: map[string]bool{}, comps: map[string]bool{}, cnts: map[string]bool{}}
	var blocks []*ssa.BasicBlock
	for b := range body {
		blocks = append(blocks, b)
	}
	sort.Slice(blocks, func(i, j int) bool { return blocks[i].Index < blocks[j].Index })
	inLoop := func(v ssa.Value) bool {
		in, ok := v.(ssa.Instruction)
		return ok && body[in.Block()]
	}
	for _, b := range blocks {
		for _, in := range b.Instrs {
			fr.scanInstr(fp, in, inLoop, 0, st, explicit)
		}
	}
	if fp.all {
		x.havocAllHeap(st)
	} else if len(fp.typed) > 0 {
		pseudo := &FnContract{Key: fr.key + "#loop@" + fmt.Sprint(h.Index), ModTypes: fp.typed}
		for s := range fp.sorts {
			_ = s // stores of the loop body itself: their owners are not known here, so they join the havoc as raw sorts below
		}
		x.typedHavoc(st, entry.clone(), pseudo, func(n string) string { return n })
		// the loop body's own stores (outside callees) are not described by types: those sorts are simply unknown at the head
		x.havocSorts(st, fp.sorts)
	} else {
		x.havocSorts(st, fp.sorts)
		var ks []string
		for k := range fp.comps {
			ks = append(ks, k)
		}
		sort.Strings(ks)
		for _, k := range ks {
			st.Comp[k] = c.freshConst(mangle(k)+"_lp", x.compSort(k))
		}
		for _, r := range fp.regions {
			x.store(st, r.ty, r.loc, c.freshConst("lpv", c.sortOf(r.ty)))
		}
	}
	if fp.alloc || fp.all {
		na := c.freshConst("alloc_lp", "Int")
		c.assume(implies(st.Reach, sx(">=", na, x.get(st, "alloc"))))
		st.Comp["alloc"] = na
	}
	if fp.locks {
		st.Comp["lock"] = c.freshConst("lock_lp", x.compSort("lock"))
	}
	x.reassumeImmutable(st)
	var cs []string
	for k := range fp.cnts {
		cs = append(cs, k)
	}
	sort.Strings(cs)
	for _, k := range cs {
		nc := c.freshConst("cnt_lp", "Int")
		c.assume(implies(st.Reach, sx(">=", nc, x.get(st, k))))
		st.Comp[k] = nc
		if x.cntKeys == nil {
			x.cntKeys = map[string]bool{}
		}
		x.cntKeys[k] = true
	}
}

type region struct {
	loc string
	ty  types.Type
}

type footprint struct {
	all     bool
	sorts   map[string]bool
	comps   map[string]bool
	regions []region
	cnts    map[string]bool
	alloc   bool
	locks   bool
	typed   []string // resolved owner names of callees' "modifies types" clauses
}

func (fr *Frame) scanInstr(fp *footprint, in ssa.Instruction, inLoop func(ssa.Value) bool, depth int, st *State, explicit bool) {
	x := fr.x
	switch in := in.(type) {
	case *ssa.Store:
		if explicit && depth == 0 {
			// explicit loop modifies clause: stores are covered by it or go to loop-local objects; the
			// frame obligation of the function and the invariants keep this honest
			return
		}
		fr.scanStore(fp, in.Addr, in.Val.Type(), inLoop, depth, st)
	case *ssa.MapUpdate:
		mt := in.Map.Type().Underlying().(*types.Map)
		_, _, md, mv := x.mapKeys(mt)
		fp.comps[md], fp.comps[mv], fp.comps["ML"] = true, true, true
	case *ssa.Alloc, *ssa.MakeSlice, *ssa.MakeMap:
		fp.alloc = true
		if mm, ok := in.(*ssa.MakeMap); ok {
			mt := mm.Type().Underlying().(*types.Map)
			_, _, md, _ := x.mapKeys(mt)
			fp.comps[md], fp.comps["ML"] = true, true
		}
		if ms, ok := in.(*ssa.MakeSlice); ok {
			for s := range x.leafSorts(ms.Type().Underlying().(*types.Slice).Elem(), nil) {
				_ = s // zeroing a fresh array does not touch existing locations
			}
		}
	case *ssa.Convert:
		if x.c.sortOf(in.Type()) == "Slice" {
			fp.alloc = true
			fp.sorts["(_ BitVec 8)"] = true
		}
	case *ssa.Next:
		if !in.IsString {
			fp.comps[mapIterKey(in.Iter)] = true // the ghost element count advances
			if rg, ok := in.Iter.(*ssa.Range); ok {
				if mt, ok := rg.X.Type().Underlying().(*types.Map); ok {
					fp.comps[mapVisitedKey(in.Iter, x.c.sortOf(mt.Key()))] = true
				}
			}
		}
	case *ssa.Send:
		fp.cnts["cnt:chan:send"] = true
	case *ssa.UnOp:
		if in.Op.String() == "<-" {
			fp.cnts["cnt:chan:recv"] = true
		}
	case *ssa.Go:
		cc := in.Common()
		if f := cc.StaticCallee(); f != nil {
			fp.cnts["cnt:go:"+FuncKey(f)] = true
		} else if cc.IsInvoke() {
			fp.cnts["cnt:go:"+ShortName(fmt.Sprintf("(%s).%s", cc.Value.Type().String(), cc.Method.Name()))] = true
		} else {
			fp.cnts["cnt:go:dynamic:"+fr.describeValue(cc.Value)] = true
		}
	case *ssa.Defer:
		if depth > 0 {
			// a defer of a function called from the loop body runs when that function returns: an ordinary call
			if f := in.Common().StaticCallee(); f != nil {
				if _, ok := lockMethod(FuncKey(f)); ok {
					fp.locks = true
					return
				}
			}
			fp.alloc = true
			return
		}
		x.c.Notes = append(x.c.Notes, fr.key+": defer inside a loop is outside the subset")
		fp.all = true
	case *ssa.Call:
		cc := in.Common()
		if b, ok := cc.Value.(*ssa.Builtin); ok {
			switch b.Name() {
			case "append":
				fp.alloc = true
				for s := range x.leafSorts(cc.Args[0].Type().Underlying().(*types.Slice).Elem(), nil) {
					_ = s // append writes only the fresh array
				}
			case "copy":
				for s := range x.leafSorts(cc.Args[0].Type().Underlying().(*types.Slice).Elem(), nil) {
					fp.sorts[s] = true
				}
			case "delete":
				mt := cc.Args[0].Type().Underlying().(*types.Map)
				_, _, md, _ := x.mapKeys(mt)
				fp.comps[md], fp.comps["ML"] = true, true
			case "close":
				fp.cnts["cnt:chan:close"] = true
			}
			return
		}
		if cc.IsInvoke() {
			key := ShortName(fmt.Sprintf("(%s).%s", cc.Value.Type().String(), cc.Method.Name()))
			fp.cnts["cnt:call:"+key] = true
			if ct := x.w.Contracts[key]; ct != nil && (ct.ModAll || len(ct.ModTypes) > 0 || len(ct.Modifies) > 0) {
				fp.all = true
			}
			fp.alloc = true
			return
		}
		f := cc.StaticCallee()
		if f == nil {
			fp.cnts["cnt:call:dynamic:"+fr.describeValue(cc.Value)] = true
			fp.alloc = true
			return
		}
		key := FuncKey(f)
		fp.cnts["cnt:call:"+key] = true
		if _, ok := lockMethod(key); ok {
			fp.locks = true
			return
		}
		ct := x.w.Contracts[key]
		if ct != nil && ct.HasSpec && !ct.Inline {
			if len(ct.ModTypes) > 0 && !ct.ModAll {
				// a callee with a typed frame: the loop head gets a typed havoc (union over such callees)
				fp.typed = append(fp.typed, x.resolveModTypes(ct, f)...)
			} else if ct.ModAll || (len(ct.Modifies) > 0 && !(explicit && depth == 0)) {
				fp.all = true
			}
			if !ct.pureNoAlloc() {
				fp.alloc = true
			}
			return
		}
		if depth < x.maxInl && len(f.Blocks) > 0 && (x.w.InModule(f) || inlineDeps[pkgOf(f)]) && outOfSubset(f) == "" {
			for _, b := range f.Blocks {
				for _, in2 := range b.Instrs {
					fr.scanInstr(fp, in2, func(ssa.Value) bool { return true }, depth+1, st, false)
				}
			}
			return
		}
		fp.alloc = true
	}
}

// classify a store by the root of its address
func (fr *Frame) scanStore(fp *footprint, addr ssa.Value, vt types.Type, inLoop func(ssa.Value) bool, depth int, st *State) {
	x := fr.x
	// walk to the root
	cur := addr
	for {
		switch a := cur.(type) {
		case *ssa.FieldAddr:
			cur = a.X
			continue
		case *ssa.IndexAddr:
			cur = a.X
			continue
		}
		break
	}
	if al, ok := cur.(*ssa.Alloc); ok && inLoop(al) {
		return // object created in this iteration
	}
	if depth == 0 && !inLoop(cur) {
		// invariant root: find the longest invariant address prefix
		var chain []ssa.Value
		c2 := addr
		for c2 != cur {
			chain = append(chain, c2)
			switch a := c2.(type) {
			case *ssa.FieldAddr:
				c2 = a.X
			case *ssa.IndexAddr:
				c2 = a.X
			}
		}
		loc := fr.val(cur)
		ty := cur.Type()
		ok := true
		if _, isSlice := ty.Underlying().(*types.Slice); isSlice {
			ok = false
		}
		if ok {
			ty = ty.Underlying().(*types.Pointer).Elem()
			for i := len(chain) - 1; i >= 0 && ok; i-- {
				switch a := chain[i].(type) {
				case *ssa.FieldAddr:
					loc = fld(loc, a.Field)
					ty = ty.Underlying().(*types.Struct).Field(a.Field).Type()
				case *ssa.IndexAddr:
					if inLoop(a.Index) {
						ok = false // region = whole current subtree (loc, ty)
						i = -1
						ok = true
						goto done
					}
					if arr, isArr := ty.Underlying().(*types.Array); isArr {
						loc = elt(loc, fr.toIdx(a.Index))
						ty = arr.Elem()
					} else {
						ok = false
					}
				}
			}
		}
	done:
		if ok && x.leafCount(ty) <= maxArrayExpand {
			fp.regions = append(fp.regions, region{loc, ty})
			return
		}
	}
	for s := range x.leafSorts(vt, nil) {
		fp.sorts[s] = true
	}
}

func (x *Exec) leafCount(t types.Type) int64 {
	t = types.Unalias(t)
	switch u := t.Underlying().(type) {
	case *types.Struct:
		var n int64
		for i := 0; i < u.NumFields(); i++ {
			n += x.leafCount(u.Field(i).Type())
		}
		return n
	case *types.Array:
		return u.Len() * x.leafCount(u.Elem())
	}
	return 1
}

// havocRegion: a modifies entry. Forms: lvalue expression (field, element, *p), map-typed expression
// (the contents of that map), slice-typed expression followed by [:] (all its elements).
func (x *Exec) havocRegion(st *State, sc *Scope, e Expr) {
	c := x.c
	if call, ok := e.(ECall); ok && call.Fun == "pointee" && len(call.Args) == 1 {
		// modifies pointee(v): v is an interface{} parameter that holds a pointer (the decoders' "into" argument); the
		// whole object it points to gets arbitrary contents. The pointee's type is read off the call site.
		v := sc.eval(call.Args[0])
		for _, a := range x.curCallArgs {
			mi, ok := a.(*ssa.MakeInterface)
			if !ok || x.curCallFrame == nil || x.curCallFrame.env[a] != v.T {
				continue
			}
			pt, ok := mi.X.Type().Underlying().(*types.Pointer)
			if !ok {
				continue
			}
			x.havocObject(st, x.leafSorts(pt.Elem(), nil), x.curCallFrame.val(mi.X))
			return
		}
		// not resolvable at this call site: be conservative
		x.havocAllHeap(st)
		return
	}
	if sl, ok := e.(ESlice); ok {
		v := sc.eval(sl.X)
		u, ok := v.Ty.Underlying().(*types.Slice)
		if !ok {
			sc.fail("modifies %s: not a slice", e)
		}
		// exactly the elements of the slice get arbitrary values
		fresh := map[string]string{}
		for s := range x.leafSorts(u.Elem(), nil) {
			fresh[s] = c.freshConst(mangle("H:"+s)+"_mod", x.compSort("H:"+s))
		}
		arr, off := sx("sl_arr", v.T), sx("sl_off", v.T)
		x.bulkWrite(st, u.Elem(), arr, off, sx("sl_len", v.T), func(i string, lp leafPath, pre map[string]string) string {
			return sx("select", fresh[lp.sort], applySteps(elt(arr, x.addIdx(off, i)), lp.steps))
		})
		return
	}
	if cl, ok := e.(ECall); ok && cl.Fun == "cell" && len(cl.Args) == 1 {
		// cell(x): the variable / field x itself (for map- or slice-typed x, not its contents)
		loc, ty := sc.lvalue(cl.Args[0])
		nv := c.freshConst("mod", c.sortOf(ty))
		x.store(st, ty, loc, nv)
		x.assumeAllocatedDeep(st, ty, nv)
		return
	}
	if v, ok := sc.tryEval(e); ok && v.Ty != nil {
		if mt, isMap := v.Ty.Underlying().(*types.Map); isMap {
			ks, vs, md, mv := x.mapKeys(mt)
			x.set(st, md, sx("store", x.get(st, md), v.T, c.freshConst("dom", fmt.Sprintf("(Array %s Bool)", ks))))
			x.set(st, mv, sx("store", x.get(st, mv), v.T, c.freshConst("val", fmt.Sprintf("(Array %s %s)", ks, vs))))
			nl := c.freshConst("mlen", c.idxSort())
			c.assume(x.leIdx(c.idx(0), nl))
			x.set(st, "ML", sx("store", x.get(st, "ML"), v.T, nl))
			return
		}
	}
	loc, ty := sc.lvalue(e)
	if x.leafCount(ty) <= 4*maxArrayExpand {
		nv := c.freshConst("mod", c.sortOf(ty))
		x.store(st, ty, loc, nv)
		x.assumeAllocatedDeep(st, ty, nv)
		return
	}
	x.havocSorts(st, x.leafSorts(ty, nil))
}

// leaves of a region, for frame obligations
type leaf struct {
	loc  string
	sort string
}

func (x *Exec) leaves(t types.Type, loc string, out *[]leaf) {
	t = types.Unalias(t)
	switch u := t.Underlying().(type) {
	case *types.Struct:
		for i := 0; i < u.NumFields(); i++ {
			x.leaves(u.Field(i).Type(), fld(loc, i), out)
		}
		return
	case *types.Array:
		if n, ok := isByteArray(t); ok && !x.c.Int {
			for k := 0; k < n; k++ {
				*out = append(*out, leaf{elt(loc, x.c.idx(int64(k))), "(_ BitVec 8)"})
			}
			return
		}
		for k := int64(0); k < u.Len(); k++ {
			x.leaves(u.Elem(), elt(loc, x.c.idx(k)), out)
		}
		return
	}
	*out = append(*out, leaf{loc, x.c.sortOf(t)})
}
