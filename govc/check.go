package govc

import (
	"encoding/json"
	"fmt"
	"os"
	"path/filepath"
	"regexp"
	"sort"
	"strconv"
	"strings"
	"time"
)

const VerifDir = "/verif"

type Claims struct {
	Property   string   `json:"property"`
	Packages   []string `json:"packages"`
	Functions  []string `json:"functions"`
	Lemmas     []string `json:"lemmas"`
	LemmaPkg   string   `json:"lemma_pkg"`
	Unclaimed  []struct {
		Pattern string `json:"pattern"`
		Reason  string `json:"reason"`
	} `json:"unclaimed"`
	Structural      []string `json:"structural"` // names of structural checks (callers / stores / single-site)
	NotDecided      []string `json:"not_decided_clauses"`
	Assumptions     []string `json:"assumptions"`
	MetaArguments   []string `json:"meta_arguments"`
	Unverified      []string `json:"unverified_functions"`
	Bounded         []string `json:"bounded"`
	MinObligations  int      `json:"min_obligations"`
	SafetyOff       []string `json:"safety_off"` // functions verified without O4 safety obligations
	MaxInline       int      `json:"max_inline"`
	Required        []string `json:"required"` // functions that carry the property-level postconditions: must exist and verify
}

type KnownFinding struct {
	Property   string `json:"property"`
	Status     string `json:"status"` // finding | fixed
	Obligation string `json:"obligation"` // regexp on obligation name
	What       string `json:"what"`
	Commit     string `json:"commit,omitempty"`
	Witness    string `json:"witness,omitempty"` // description of the failing input class
}

type obRecord struct {
	Name    string  `json:"name"`
	Kind    string  `json:"kind"`
	Func    string  `json:"function"`
	Clause  string  `json:"clause,omitempty"`
	Result  string  `json:"result"`
	By      string  `json:"decided_by"`
	Seconds float64 `json:"seconds"`
	Hyps    int     `json:"hypotheses"`
	Where   string  `json:"where,omitempty"`
}

type ReplayFile struct {
	Property   string            `json:"property"`
	Obligation string            `json:"obligation"`
	Kind       string            `json:"kind"`
	Function   string            `json:"function"`
	Clause     string            `json:"clause"`
	Where      string            `json:"where"`
	Verdict    string            `json:"verdict"`
	Solvers    []SolverRun       `json:"solver_runs"`
	Model      map[string]string `json:"model,omitempty"`
	SMTFile    string            `json:"smt_file,omitempty"`
	Reproduced bool              `json:"reproduced_on_real_code"`
	ReplayLog  string            `json:"replay_log,omitempty"`
	ReplayTest string            `json:"replay_test,omitempty"`
	Note       string            `json:"note,omitempty"`
}

func readJSON(path string, v any) error {
	b, err := os.ReadFile(path)
	if err != nil {
		return err
	}
	return json.Unmarshal(b, v)
}

func writeJSON(path string, v any) error {
	b, err := json.MarshalIndent(v, "", " ")
	if err != nil {
		return err
	}
	os.MkdirAll(filepath.Dir(path), 0o755)
	return os.WriteFile(path, append(b, '\n'), 0o644)
}

// CheckMain: govc check <Cxx> quick|thorough [-repo /repo]
func CheckMain(args []string) int {
	if len(args) < 2 {
		fmt.Println("usage: govc check <property> quick|thorough")
		return 2
	}
	prop, tier := args[0], args[1]
	repo := "/repo"
	outDir := VerifDir
	for i := 2; i+1 < len(args); i++ {
		if args[i] == "-repo" {
			repo = args[i+1]
		}
		if args[i] == "-out" {
			outDir = args[i+1]
		}
	}
	if repo != "/repo" && outDir == VerifDir {
		// a scratch tree (mutant, self-test): never touch the registered evidence and replay files
		outDir = filepath.Join(Scratch(), "out")
	}
	defer CleanupScratch()
	t0 := time.Now()
	seed := 0
	if s := os.Getenv("VERIF_SEED"); s != "" {
		seed, _ = strconv.Atoi(s)
	}
	var cl Claims
	if err := readJSON(filepath.Join(VerifDir, "claims", prop+".json"), &cl); err != nil {
		fmt.Println("cannot read claims:", err)
		return 2
	}
	var known []KnownFinding
	readJSON(filepath.Join(VerifDir, "known_findings.json"), &known)

	replayDir := filepath.Join(outDir, "replays", prop)
	os.RemoveAll(replayDir)

	type viol struct {
		name, path string
		noInput    bool
	}
	var viols []viol
	var knownLines []string
	report := func(rf *ReplayFile) {
		// known findings
		for _, k := range known {
			if k.Property != prop || k.Status != "finding" {
				continue
			}
			if re, err := regexp.Compile(k.Obligation); err == nil && re.MatchString(rf.Obligation) {
				knownLines = append(knownLines, fmt.Sprintf("KNOWN-FINDING: property=%s %s (%s)", prop, k.What, rf.Obligation))
				return
			}
		}
		p := filepath.Join(replayDir, mangle(rf.Obligation)+".json")
		rf.Property = prop
		writeJSON(p, rf)
		viols = append(viols, viol{rf.Obligation, p, !rf.Reproduced})
	}

	w, err := Load(repo, cl.Packages...)
	var results []*FuncResult
	var structural []StructResult
	var staleNotes []string
	if err != nil {
		report(&ReplayFile{Obligation: prop + "#load", Kind: "load", Verdict: "undecided", Note: "the tree does not load/type-check: " + err.Error()})
	} else {
		paths := []string{repo, filepath.Join(VerifDir, "spec")}
		if err := w.ReadContracts(paths...); err != nil {
			fmt.Println("contract error:", err)
			return 2
		}
		safetyOff := map[string]bool{}
		for _, f := range cl.SafetyOff {
			safetyOff[f] = true
		}
		required := map[string]bool{}
		for _, f := range cl.Required {
			required[f] = true
		}
		// Helper functions (claimed but not required) may disappear or change shape in a refactoring. A
		// helper that no longer exists, or whose contract no longer evaluates against the code, loses its
		// contract: its callers then execute its body (inlining) and the property-level obligations of
		// the required functions must still be discharged. Nothing is assumed in its place.
		for round := 0; round < 4; round++ {
			results = results[:0]
			stale := false
			for _, k := range cl.Functions {
				r := VerifyFunc(w, k, VerifyOpts{Safety: !safetyOff[k], MaxInl: cl.MaxInline})
				if r.Err != "" && !required[k] && len(cl.Required) > 0 {
					if _, had := w.Contracts[k]; had {
						delete(w.Contracts, k)
						stale = true
					}
					staleNotes = append(staleNotes, fmt.Sprintf("helper %s: %s -- contract dropped, callers execute the body", k, firstLine(r.Err)))
					continue
				}
				results = append(results, r)
			}
			if !stale {
				break
			}
		}
		for _, ln := range cl.Lemmas {
			found := false
			for _, lm := range w.Globals.Lemmas {
				if lm.Name == ln {
					found = true
					results = append(results, VerifyLemma(w, lm, cl.LemmaPkg))
				}
			}
			if !found {
				results = append(results, &FuncResult{Key: "lemma:" + ln, Err: "lemma not found in contract files"})
			}
		}
		for _, s := range cl.Structural {
			structural = append(structural, RunStructural(w, s))
		}
		opts := RunOpts{TimeoutS: 10, Seed: seed, Retry: true, Par: 8}
		if tier == "thorough" {
			opts.All = true
			opts.TimeoutS = 30
		}
		if tier != "thorough" {
			// obligations that are generated but not claimed (documented assumptions) are only run in the thorough tier
			var res []*regexp.Regexp
			for _, u := range cl.Unclaimed {
				res = append(res, regexp.MustCompile(u.Pattern))
			}
			opts.Skip = func(n string) bool {
				for _, re := range res {
					if re.MatchString(n) {
						return true
					}
				}
				return false
			}
		}
		RunObligations(results, opts)
	}

	var unclaimed []*regexp.Regexp
	for _, u := range cl.Unclaimed {
		unclaimed = append(unclaimed, regexp.MustCompile(u.Pattern))
	}
	isUnclaimed := func(n string) bool {
		for _, re := range unclaimed {
			if re.MatchString(n) {
				return true
			}
		}
		return false
	}

	var recs []obRecord
	var unclaimedRecs []obRecord
	nObl, nDis := 0, 0
	solverTime := 0.0
	byBackend := map[string]int{}
	funcs := []map[string]any{}
	assumedUse := map[string]int{}
	unmodelled := map[string]int{}
	inlined := map[string]int{}
	var notes []string
	var samples []any
	vacuity := 0
	for _, r := range results {
		if r.Err != "" {
			report(&ReplayFile{Obligation: r.Key + "#generate", Kind: "generate", Function: r.Key, Verdict: "undecided",
				Note: "obligations could not be generated from the current source: " + r.Err})
			nObl++
			recs = append(recs, obRecord{Name: r.Key + "#generate", Kind: "generate", Func: r.Key, Result: "undecided"})
			continue
		}
		arith := r.Arith
		if arith == "" {
			arith = "bv"
		}
		funcs = append(funcs, map[string]any{"function": r.Key, "arith": arith, "obligations": len(r.Ctx.Obls), "contract_file": strings.TrimPrefix(r.File, repo+"/"), "gen_seconds": round(r.GenSecs)})
		for k, n := range r.Ctx.AssumedUse {
			assumedUse[k] += n
		}
		for k, n := range r.Ctx.Unmodelled {
			unmodelled[k] += n
		}
		for k, n := range r.Ctx.Inlined {
			inlined[k] += n
		}
		notes = append(notes, r.Ctx.Notes...)
		for _, o := range r.Ctx.Obls {
			rec := obRecord{Name: o.Name, Kind: o.Kind, Func: o.Func, Clause: o.Clause, Result: o.Result, By: o.By, Seconds: round(o.Seconds), Hyps: o.cut,
				Where: fmt.Sprintf("%s:%d", strings.TrimPrefix(o.Pos.Filename, repo+"/"), o.Pos.Line)}
			solverTime += o.Seconds
			if isUnclaimed(o.Name) {
				unclaimedRecs = append(unclaimedRecs, rec)
				continue
			}
			if o.Kind == "vacuity" {
				vacuity++
				if o.Result == "vacuous" {
					fmt.Printf("ENGINE-ERROR: contradictory preconditions in %s\n", o.Func)
					report(&ReplayFile{Obligation: o.Name, Kind: o.Kind, Function: o.Func, Clause: o.Clause, Verdict: "vacuous", Solvers: o.Runs, Note: "preconditions are contradictory: nothing would be proved"})
				}
				continue
			}
			nObl++
			recs = append(recs, rec)
			if o.Result == "unsat" {
				nDis++
				byBackend[o.By]++
				if len(samples) < 3 && (o.Kind == "post" || o.Kind == "lemma" || o.Kind == "inv-pres") {
					samples = append(samples, map[string]any{"obligation": o.Name, "kind": o.Kind, "clause": o.Clause, "decided_by": o.By, "seconds": round(o.Seconds), "smt_bytes": len(r.Ctx.Query(o))})
				}
				continue
			}
			// failed
			rf := &ReplayFile{Obligation: o.Name, Kind: o.Kind, Function: o.Func, Clause: o.Clause, Where: rec.Where, Verdict: o.Result, Solvers: trimRuns(o.Runs), Model: o.Model}
			if o.File != "" {
				dst := filepath.Join(replayDir, mangle(o.Name)+".smt2")
				os.MkdirAll(replayDir, 0o755)
				if b, err := os.ReadFile(o.File); err == nil {
					os.WriteFile(dst, b, 0o644)
					rf.SMTFile = dst
				}
			}
			if (o.Result == "sat" && len(o.Model) > 0) || replayWithoutModel(o) {
				TryReplay(repo, rf)
			}
			report(rf)
		}
	}
	for _, s := range structural {
		nObl++
		rec := obRecord{Name: s.Name, Kind: "structural", Result: "unsat", By: "ssa-enumeration", Clause: s.What}
		if !s.OK {
			rec.Result = "violated"
			report(&ReplayFile{Obligation: s.Name, Kind: "structural", Clause: s.What, Verdict: "violated", Note: s.Detail})
		} else {
			nDis++
			byBackend["ssa-enumeration"]++
		}
		recs = append(recs, rec)
	}
	if nObl < cl.MinObligations {
		report(&ReplayFile{Obligation: prop + "#obligation-count", Kind: "vacuity", Verdict: "undecided", Note: fmt.Sprintf("only %d obligations generated, expected at least %d", nObl, cl.MinObligations)})
	}
	if len(samples) == 0 && len(recs) > 0 {
		samples = append(samples, recs[0])
	}

	// evidence
	trusted := []string{
		"go/packages + go/types + go/ssa (x/tools v0.29.0) represent the program that go build compiles (linux/amd64)",
		"the VC generator /verif/govc (checked by the must-fail self-test corpus and vacuity obligations)",
		"SMT solvers: an 'unsat' from z3 5.1.0, z3 4.8.12 or cvc5 1.0.3",
	}
	var assumedList []string
	for k, n := range assumedUse {
		assumedList = append(assumedList, fmt.Sprintf("assumed (trusted) contract of %s, used at %d call sites", k, n))
	}
	sort.Strings(assumedList)
	var unmodelledList []string
	for k, n := range unmodelled {
		unmodelledList = append(unmodelledList, fmt.Sprintf("%s (x%d): no contract; result unconstrained, assumed not to touch module state", k, n))
	}
	sort.Strings(unmodelledList)
	var inlinedList []string
	for k, n := range inlined {
		inlinedList = append(inlinedList, fmt.Sprintf("%s (x%d)", k, n))
	}
	sort.Strings(inlinedList)
	assumptions := append([]string{}, cl.Assumptions...)
	assumptions = append(assumptions, assumedList...)
	assumptions = append(assumptions, "machine arithmetic: bit-vectors of the real width (arith bv) unless a function is listed with arith int, where every + - * and conversion carries a no-overflow obligation")
	assumptions = append(assumptions, "slices: append always yields a fresh backing array (in-place growth into spare capacity is not modelled)")
	assumptions = append(assumptions, "functions are verified as sequential code; interference only at lock re-acquisition (meta-argument M1)")
	for _, m := range cl.MetaArguments {
		assumptions = append(assumptions, "meta-argument (not machine-checked): "+m)
	}
	ev := map[string]any{
		"property_id": prop,
		"tier":        tier,
		"seed":        seed,
		"level":       "proof",
		"wall_s":      round(time.Since(t0).Seconds()),
		"violations":  len(viols),
		"assumptions": assumptions,
		"coverage": map[string]any{
			"obligations":              nObl,
			"discharged":               nDis,
			"checker_cmd":              fmt.Sprintf("/verif/check %s %s", prop, tier),
			"trusted_base":             trusted,
			"functions_under_contract": funcs,
			"per_obligation":           recs,
			"unclaimed_obligations":    unclaimedRecs,
			"discharged_by_backend":    byBackend,
			"solver_time_s":            round(solverTime),
			"vacuity_checks":           vacuity,
			"inlined_functions":        inlinedList,
			"calls_without_contract":   unmodelledList,
			"unverified_functions":     cl.Unverified,
			"bounded":                  cl.Bounded,
			"not_decided_clauses":      cl.NotDecided,
			"engine_notes":             dedup(notes),
			"stale_helper_contracts":   dedup(staleNotes),
			"samples":                  samples,
			"known_findings":           knownLines,
			"contract_files":           relFiles(w, repo),
		},
	}
	if err := writeJSON(filepath.Join(outDir, "evidence", prop+".json"), ev); err != nil {
		fmt.Println("cannot write evidence:", err)
		return 2
	}
	for _, l := range knownLines {
		fmt.Println(l)
	}
	fmt.Printf("%s %s: %d obligations, %d discharged, %d violations, %.1fs\n", prop, tier, nObl, nDis, len(viols), time.Since(t0).Seconds())
	if len(viols) > 0 {
		for _, v := range viols {
			suffix := ""
			if v.noInput {
				suffix = " no-failing-input-found"
			}
			fmt.Printf("VIOLATION property=%s replay=%s%s\n", prop, v.path, suffix)
		}
		return 1
	}
	return 0
}

func relFiles(w *World, repo string) []string {
	var out []string
	if w == nil {
		return out
	}
	for _, f := range w.Files {
		out = append(out, f)
	}
	return out
}

func trimRuns(rs []SolverRun) []SolverRun {
	var out []SolverRun
	for _, r := range rs {
		if len(r.Output) > 4000 {
			r.Output = r.Output[:4000] + "..."
		}
		out = append(out, r)
	}
	return out
}

func dedup(xs []string) []string {
	seen := map[string]bool{}
	var out []string
	for _, x := range xs {
		if !seen[x] {
			seen[x] = true
			out = append(out, x)
		}
	}
	return out
}

func firstLine(s string) string {
	if i := strings.IndexByte(s, '\n'); i >= 0 {
		return s[:i]
	}
	return s
}

func round(f float64) float64 { return float64(int(f*1000+0.5)) / 1000 }

func ReplayMain(args []string) int {
	if len(args) < 1 {
		fmt.Println("usage: govc replay <file.json>")
		return 2
	}
	var rf ReplayFile
	if err := readJSON(args[0], &rf); err != nil {
		fmt.Println(err)
		return 2
	}
	defer CleanupScratch()
	fmt.Printf("obligation: %s\nclause: %s\nverdict: %s\n", rf.Obligation, rf.Clause, rf.Verdict)
	for k, v := range rf.Model {
		fmt.Printf("  %s = %s\n", k, v)
	}
	if len(rf.Model) == 0 {
		fmt.Println("no model: nothing to replay (no-failing-input-found)")
		return 1
	}
	TryReplay("/repo", &rf)
	fmt.Println(rf.ReplayLog)
	if rf.Reproduced {
		fmt.Println("REPRODUCED on the real code")
		return 1
	}
	fmt.Println("not reproduced")
	return 0
}
