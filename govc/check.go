package govc

func CheckMain(args []string) int  { return 2 }
func ReplayMain(args []string) int { return 2 }
