package govc

// Structural obligations: closed caller sets, store sites, single call sites — enumerated over the
// module's SSA on every run (kinds O5 "stores only in" and O10 "callers" of DESIGN.md).

type StructResult struct {
	Name   string
	What   string
	OK     bool
	Detail string
}

var structuralChecks = map[string]func(w *World) StructResult{}

func RunStructural(w *World, name string) StructResult {
	f, ok := structuralChecks[name]
	if !ok {
		return StructResult{Name: name, What: "unknown structural check", OK: false, Detail: "not implemented"}
	}
	r := f(w)
	r.Name = name
	return r
}
