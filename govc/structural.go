package govc

import (
	"fmt"
	"go/types"
	"sort"
	"strings"

	"golang.org/x/tools/go/ssa"
)

// Structural obligations: closed caller sets, store sites, typed frames — enumerated over the
// module's SSA on every run (kinds O5 "stores only in" / "writes within" and O10 "callers" of DESIGN.md).
// They are the frame / ownership conditions of the contracts; a change to the code that adds a write or a
// caller outside the declared set fails the named obligation.

type StructResult struct {
	Name   string
	What   string
	OK     bool
	Detail string
}

var structuralChecks = map[string]func(w *World) StructResult{}

// RunStructural dispatches on the obligation name:
//
//	writes-within:<func key>              the function and everything it calls write only cells owned by the
//	                                      struct types of its "modifies types" clause
//	callers:<func key>=<k1>|<k2>|...      every call (or other use) of the function is in one of the listed functions
//	stores:<Type>.<field>=<k1>|<k2>|...   every store to that field is in one of the listed functions
func RunStructural(w *World, name string) StructResult {
	if f, ok := structuralChecks[name]; ok {
		r := f(w)
		r.Name = name
		return r
	}
	switch {
	case strings.HasPrefix(name, "writes-within:"):
		return writesWithin(w, name, strings.TrimPrefix(name, "writes-within:"))
	case strings.HasPrefix(name, "callers:"):
		spec := strings.TrimPrefix(name, "callers:")
		i := strings.Index(spec, "=")
		if i < 0 {
			break
		}
		return callersOf(w, name, spec[:i], strings.Split(spec[i+1:], "|"))
	case strings.HasPrefix(name, "stores:"):
		spec := strings.TrimPrefix(name, "stores:")
		i := strings.Index(spec, "=")
		if i < 0 {
			break
		}
		return storesOf(w, name, spec[:i], strings.Split(spec[i+1:], "|"))
	case strings.HasPrefix(name, "mapwrites:"):
		// mapwrites:<Type>.<field>=<k1>|...   every insertion into / deletion from the map held in that field
		spec := strings.TrimPrefix(name, "mapwrites:")
		i := strings.Index(spec, "=")
		if i < 0 {
			break
		}
		return mapWritesOf(w, name, spec[:i], strings.Split(spec[i+1:], "|"))
	}
	return StructResult{Name: name, What: "unknown structural check", OK: false, Detail: "not implemented"}
}

func moduleFuncsAll(w *World) []*ssa.Function {
	seen := map[*ssa.Function]bool{}
	var out []*ssa.Function
	var add func(f *ssa.Function)
	add = func(f *ssa.Function) {
		if f == nil || seen[f] || len(f.Blocks) == 0 {
			return
		}
		seen[f] = true
		out = append(out, f)
		for _, a := range f.AnonFuncs {
			add(a)
		}
	}
	for _, f := range w.Funcs {
		if w.InModule(f) && !strings.Contains(pkgOf(f), "/cmd/") {
			add(f)
		}
	}
	sort.Slice(out, func(i, j int) bool { return FuncKey(out[i]) < FuncKey(out[j]) })
	return out
}

func inSet(set []string, k string) bool {
	for _, s := range set {
		s = strings.TrimSpace(s)
		if s == k || (strings.HasSuffix(s, "*") && strings.HasPrefix(k, strings.TrimSuffix(s, "*"))) {
			return true
		}
	}
	return false
}

// the function a closure belongs to, for attributing sites: "f$1" counts as part of "f" when f is listed with a trailing '*'
func callersOf(w *World, name, callee string, allowed []string) StructResult {
	res := StructResult{Name: name, What: fmt.Sprintf("every use of %s is in {%s}", callee, strings.Join(allowed, ", ")), OK: true}
	target := w.Funcs[callee]
	isIface := target == nil
	var bad []string
	found := 0
	for _, f := range moduleFuncsAll(w) {
		fk := FuncKey(f)
		for _, b := range f.Blocks {
			for _, in := range b.Instrs {
				hit := false
				if ci, ok := in.(ssa.CallInstruction); ok {
					cc := ci.Common()
					if isIface && cc.IsInvoke() {
						if ShortName(fmt.Sprintf("(%s).%s", cc.Value.Type().String(), cc.Method.Name())) == callee {
							hit = true
						}
					} else if sc := cc.StaticCallee(); sc != nil && FuncKey(sc) == callee {
						hit = true
					}
				}
				if !hit && target != nil {
					// other uses of the function as a value (stored, passed, bound)
					for _, op := range in.Operands(nil) {
						if *op == nil {
							continue
						}
						if fv, ok := (*op).(*ssa.Function); ok && FuncKey(fv) == callee {
							if ci, isCall := in.(ssa.CallInstruction); isCall && ci.Common().Value == fv {
								continue
							}
							hit = true
						}
					}
				}
				if hit {
					found++
					if !inSet(allowed, fk) {
						bad = append(bad, fmt.Sprintf("%s (%s)", fk, w.Prog.Fset.Position(in.Pos())))
					}
				}
			}
		}
	}
	if len(bad) > 0 {
		res.OK = false
		res.Detail = "uses outside the declared set: " + strings.Join(bad, "; ")
	} else {
		res.Detail = fmt.Sprintf("%d uses, all in the declared set", found)
	}
	return res
}

func storesOf(w *World, name, field string, allowed []string) StructResult {
	res := StructResult{Name: name, What: fmt.Sprintf("every store to %s is in {%s}", field, strings.Join(allowed, ", ")), OK: true}
	i := strings.LastIndex(field, ".")
	tname, fname := field[:i], field[i+1:]
	var bad []string
	found := 0
	for _, f := range moduleFuncsAll(w) {
		fk := FuncKey(f)
		for _, b := range f.Blocks {
			for _, in := range b.Instrs {
				st, ok := in.(*ssa.Store)
				if !ok {
					continue
				}
				for _, fa := range fieldAddrsOf(st.Addr) {
					stt := fa.X.Type().Underlying().(*types.Pointer).Elem()
					if ownerName(stt) == tname && stt.Underlying().(*types.Struct).Field(fa.Field).Name() == fname {
						found++
						if !inSet(allowed, fk) {
							bad = append(bad, fmt.Sprintf("%s (%s)", fk, w.Prog.Fset.Position(in.Pos())))
						}
					}
				}
				// a whole-struct store also writes the field
				if pt, ok := st.Addr.Type().Underlying().(*types.Pointer); ok && ownerName(pt.Elem()) == tname {
					if _, isAlloc := st.Addr.(*ssa.Alloc); !isAlloc {
						found++
						if !inSet(allowed, fk) {
							bad = append(bad, fmt.Sprintf("%s (whole value, %s)", fk, w.Prog.Fset.Position(in.Pos())))
						}
					}
				}
			}
		}
	}
	if len(bad) > 0 {
		res.OK = false
		res.Detail = "stores outside the declared set: " + strings.Join(bad, "; ")
	} else {
		res.Detail = fmt.Sprintf("%d stores, all in the declared set", found)
	}
	return res
}

func fieldAddrsOf(v ssa.Value) []*ssa.FieldAddr {
	var out []*ssa.FieldAddr
	for {
		switch a := v.(type) {
		case *ssa.FieldAddr:
			out = append(out, a)
			v = a.X
			continue
		case *ssa.IndexAddr:
			v = a.X
			continue
		}
		return out
	}
}

// ---- writes-within --------------------------------------------------------------------------------------

func rootOfAddr(v ssa.Value) ssa.Value {
	for {
		switch a := v.(type) {
		case *ssa.FieldAddr:
			v = a.X
			continue
		case *ssa.IndexAddr:
			if _, isSlice := a.X.Type().Underlying().(*types.Slice); isSlice {
				return a.X
			}
			v = a.X
			continue
		}
		return v
	}
}

// struct types whose cells a store of a value of type t at an owner-less address writes
func nestedStructs(t types.Type, acc map[string]bool) {
	t = types.Unalias(t)
	switch u := t.Underlying().(type) {
	case *types.Struct:
		acc[ownerName(t)] = true
		for i := 0; i < u.NumFields(); i++ {
			nestedStructs(u.Field(i).Type(), acc)
		}
	case *types.Array:
		nestedStructs(u.Elem(), acc)
	}
}

func writesWithin(w *World, name, key string) StructResult {
	res := StructResult{Name: name, OK: true}
	ct := w.Contracts[key]
	root := w.Funcs[key]
	if ct == nil || root == nil || len(ct.ModTypes) == 0 {
		res.OK = false
		res.What = "typed frame of " + key
		res.Detail = "function or its 'modifies types' clause not found"
		return res
	}
	// resolve the declared types
	allowed := map[string]bool{}
	var pkg *types.Package
	if root.Pkg != nil {
		pkg = root.Pkg.Pkg
	}
	sc := &Scope{x: &Exec{w: w, c: NewCtx(w, false)}, pkg: pkg, vars: map[string]Val{}}
	for _, t := range ct.ModTypes {
		if strings.HasPrefix(t, "raw:") {
			allowed[t] = true
			continue
		}
		func() {
			defer func() { recover() }()
			if ty, _ := sc.typeByName(t); ty != nil {
				allowed[ownerName(ty)] = true
			}
		}()
	}
	var names []string
	for a := range allowed {
		names = append(names, a)
	}
	sort.Strings(names)
	res.What = fmt.Sprintf("%s and everything it calls write only cells owned by {%s} (and maps, locals, globals)", key, strings.Join(names, ", "))

	// transitive callees: static calls, closures created inside, closures passed to the function anywhere in the
	// module (callbacks), interface calls resolved over the module's types
	seen := map[*ssa.Function]bool{}
	var work []*ssa.Function
	push := func(f *ssa.Function) {
		if f == nil {
			return
		}
		if f.Origin() != nil {
			f = f.Origin()
		}
		if seen[f] || len(f.Blocks) == 0 || !w.InModule(f) {
			return
		}
		seen[f] = true
		work = append(work, f)
	}
	push(root)
	externalCb := map[*ssa.Function]bool{} // closures handed to root by its callers: their captured variables are the callers' locals
	// callbacks passed to root
	for _, f := range moduleFuncsAll(w) {
		for _, b := range f.Blocks {
			for _, in := range b.Instrs {
				ci, ok := in.(ssa.CallInstruction)
				if !ok {
					continue
				}
				if sc := ci.Common().StaticCallee(); sc != nil && FuncKey(sc) == key {
					for _, a := range ci.Common().Args {
						if mc, ok := a.(*ssa.MakeClosure); ok {
							push(mc.Fn.(*ssa.Function))
							externalCb[mc.Fn.(*ssa.Function)] = true
						}
						if fv, ok := a.(*ssa.Function); ok {
							push(fv)
						}
					}
				}
			}
		}
	}
	var bad []string
	var foreignIface []string
	stores := 0
	// phase 1: the explored call graph and its call sites
	type site struct {
		caller *ssa.Function
		args   []ssa.Value
	}
	sites := map[*ssa.Function][]site{}
	var explored []*ssa.Function
	for len(work) > 0 {
		f := work[len(work)-1]
		work = work[:len(work)-1]
		explored = append(explored, f)
		for _, a := range f.AnonFuncs {
			push(a)
		}
		for _, b := range f.Blocks {
			for _, in := range b.Instrs {
				ci, ok := in.(ssa.CallInstruction)
				if !ok {
					continue
				}
				cc := ci.Common()
				if sc := cc.StaticCallee(); sc != nil {
					g := sc
					if g.Origin() != nil {
						g = g.Origin()
					}
					sites[g] = append(sites[g], site{f, cc.Args})
					push(sc)
					continue
				}
				if cc.IsInvoke() {
					n := 0
					for _, impl := range implementations(w, cc) {
						push(impl)
						sites[impl] = append(sites[impl], site{f, nil})
						n++
					}
					if n == 0 {
						foreignIface = append(foreignIface, ShortName(fmt.Sprintf("(%s).%s", cc.Value.Type().String(), cc.Method.Name())))
					}
				}
			}
		}
	}
	// a root is local when it is a local allocation, a fresh slice, or a pointer parameter that receives the
	// address of a local object at every explored call site
	var isLocalRoot func(f *ssa.Function, r ssa.Value, depth int) bool
	isLocalRoot = func(f *ssa.Function, r ssa.Value, depth int) bool {
		switch v := r.(type) {
		case *ssa.Alloc:
			return true
		case *ssa.MakeSlice:
			return true
		case *ssa.Call:
			if b, ok := v.Call.Value.(*ssa.Builtin); ok && b.Name() == "append" {
				return true
			}
		case *ssa.Slice:
			return isLocalRoot(f, rootOfAddr(v.X), depth)
		case *ssa.Parameter:
			if depth > 4 || f == root {
				return false
			}
			idx := -1
			for i, p := range f.Params {
				if p == v {
					idx = i
				}
			}
			ss := sites[f]
			if idx < 0 || len(ss) == 0 {
				return false
			}
			for _, s := range ss {
				if s.args == nil || idx >= len(s.args) || !isLocalRoot(s.caller, rootOfAddr(s.args[idx]), depth+1) {
					return false
				}
			}
			return true
		}
		return false
	}
	for _, f := range explored {
		for _, b := range f.Blocks {
			for _, in := range b.Instrs {
				switch in := in.(type) {
				case *ssa.Store:
					r := rootOfAddr(in.Addr)
					if isLocalRoot(f, r, 0) {
						continue
					}
					if _, isFV := r.(*ssa.FreeVar); isFV && !externalCb[f] {
						continue // a variable of an enclosing function that is itself inside the explored code
					}
					if g, isGlobal := r.(*ssa.Global); isGlobal {
						// a package-level variable: owner "global:<name>" unless the store goes to a struct field of it
						stores++
						o := "global:" + ShortName(g.String())
						if !allowed[o] && !allowed["globals"] {
							bad = append(bad, fmt.Sprintf("%s writes %s (%s)", FuncKey(f), o, w.Prog.Fset.Position(in.Pos())))
						}
						continue
					}
					stores++
					// (a store through a captured variable has owner "local" or the variable's struct type: the
					// enclosing function's locals are preserved by a typed havoc only if no callee does this)
					owners := map[string]bool{}
					if o := ownerOfAddr(in.Addr); o != "" {
						owners[o] = true
					}
					nestedStructs(in.Val.Type(), owners)
					if len(owners) == 0 {
						owners["raw:"+ownerName(in.Val.Type())] = true
					}
					for o := range owners {
						if !allowed[o] {
							bad = append(bad, fmt.Sprintf("%s writes a cell owned by %s (%s)", FuncKey(f), o, w.Prog.Fset.Position(in.Pos())))
						}
					}
				}
			}
		}
	}
	if len(bad) > 0 {
		res.OK = false
		res.Detail = strings.Join(dedup(bad), "; ")
	} else {
		res.Detail = fmt.Sprintf("%d functions, %d stores to non-local memory, all within the declared types; interface calls without a module implementation (assumed to respect the frame): %s", len(seen), stores, strings.Join(dedup(foreignIface), ", "))
	}
	return res
}

// module methods that an interface call may dispatch to
func implementations(w *World, cc *ssa.CallCommon) []*ssa.Function {
	iface, ok := cc.Value.Type().Underlying().(*types.Interface)
	if !ok {
		return nil
	}
	var out []*ssa.Function
	for _, p := range w.Prog.AllPackages() {
		if !strings.HasPrefix(p.Pkg.Path(), ModPath) {
			continue
		}
		for _, m := range p.Members {
			tn, ok := m.(*ssa.Type)
			if !ok {
				continue
			}
			for _, t := range []types.Type{tn.Type(), types.NewPointer(tn.Type())} {
				if types.IsInterface(t) || !types.Implements(t, iface) {
					continue
				}
				ms := w.Prog.MethodSets.MethodSet(t)
				if sel := ms.Lookup(cc.Method.Pkg(), cc.Method.Name()); sel != nil {
					if fn := w.Prog.MethodValue(sel); fn != nil {
						out = append(out, fn)
					}
				}
			}
		}
	}
	return out
}
