package govc

import (
	"fmt"
	"go/types"
	"sort"
)

// frameCheck emits obligations "every location allocated before <allocBound> and outside the
// modifies set has the same value in `to` as in `from`". Used for function frames (from = entry)
// and for loops with an explicit modifies clause (from = loop head, to = back edge).
func (x *Exec) frameCheck(fr *Frame, mods []*Clause, sc *Scope, from, to *State, allocBound, prefix, what string) {
	c := x.c
	type excl struct {
		locs []string
		refs []string
	}
	ex := map[string]*excl{}
	get := func(s string) *excl {
		if ex[s] == nil {
			ex[s] = &excl{}
		}
		return ex[s]
	}
	mapsMod := map[string][]string{}
	for _, m := range mods {
		if sl, ok := m.E.(ESlice); ok {
			v := sc.eval(sl.X)
			for s := range x.leafSorts(v.Ty.Underlying().(*types.Slice).Elem(), nil) {
				get(s).refs = append(get(s).refs, sx("ref", sx("sl_arr", v.T)))
			}
			continue
		}
		if cl, ok := m.E.(ECall); ok && cl.Fun == "cell" && len(cl.Args) == 1 {
			// cell(x): the variable / field x itself (for map- or slice-typed x, not its contents)
			loc, ty := sc.lvalue(cl.Args[0])
			var ls []leaf
			x.leaves(ty, loc, &ls)
			for _, l := range ls {
				get(l.sort).locs = append(get(l.sort).locs, l.loc)
			}
			continue
		}
		if v, ok := sc.tryEval(m.E); ok && v.Ty != nil {
			if mt, isMap := v.Ty.Underlying().(*types.Map); isMap {
				_, _, md, mv := x.mapKeys(mt)
				mapsMod[md] = append(mapsMod[md], v.T)
				mapsMod[mv] = append(mapsMod[mv], v.T)
				mapsMod["ML"] = append(mapsMod["ML"], v.T)
				continue
			}
		}
		loc, ty := sc.lvalue(m.E)
		if x.leafCount(ty) > 4*maxArrayExpand {
			for s := range x.leafSorts(ty, nil) {
				get(s).refs = append(get(s).refs, sx("ref", loc))
			}
			continue
		}
		var ls []leaf
		x.leaves(ty, loc, &ls)
		for _, l := range ls {
			get(l.sort).locs = append(get(l.sort).locs, l.loc)
		}
	}
	if to.Gen != from.Gen {
		c.oblige(prefix+":all", "frame", x.target, what+": unbounded havoc inside", fr.pos(fr.fn.Pos()), to.Reach, "false", nil)
		return
	}
	var keys []string
	for k := range to.Comp {
		kind, _ := compSortKey(k)
		if kind == "H" || kind == "MD" || kind == "MV" || kind == "ML" {
			keys = append(keys, k)
		}
	}
	sort.Strings(keys)
	for _, k := range keys {
		h1, h0 := x.get(to, k), x.get(from, k)
		if h1 == h0 {
			continue
		}
		kind, rest := compSortKey(k)
		l := c.freshConst("frame_l", "Loc")
		conds := []string{sx("<", sx("ref", l), allocBound), not(eq(l, "nil"))}
		if kind == "H" {
			if e := ex[rest]; e != nil {
				for _, loc := range e.locs {
					conds = append(conds, not(eq(l, loc)))
				}
				for _, r := range e.refs {
					conds = append(conds, not(eq(sx("ref", l), r)))
				}
			}
		} else {
			for _, m := range mapsMod[k] {
				conds = append(conds, not(eq(l, m)))
			}
		}
		g := implies(and(conds...), eq(sx("select", h1, l), sx("select", h0, l)))
		c.oblige(fmt.Sprintf("%s:%s", prefix, mangle(k)), "frame", x.target, what+" (component "+k+")", fr.pos(fr.fn.Pos()), to.Reach, g,
			append([]ModelReq{{Label: "loc", Term: l}}, x.topReqs...))
	}
}
