package govc

import (
	"fmt"

	"golang.org/x/tools/go/ssa"
)

type runCtx struct {
	back   map[[2]int]bool
	bodies map[*ssa.BasicBlock]map[*ssa.BasicBlock]bool
	exits  map[*ssa.BasicBlock]map[*ssa.BasicBlock]*State
	done   map[*ssa.BasicBlock]bool
}

// run executes fn from state st with parameters already bound in fr.env. It returns the merged
// exit (nil if no return is reachable). Loops are cut at their header (invariants) or unrolled
// (contract "unroll N", with an unwinding obligation).
func (fr *Frame) run(st *State) *retInfo {
	x := fr.x
	fn := fr.fn
	if len(fn.Blocks) == 0 {
		panic("run: no body for " + fr.key)
	}
	fr.entry = st.clone()
	headers, bodies, back := loopsOf(fn)
	fr.loopOf = map[*ssa.BasicBlock]int{}
	for i, h := range headers {
		fr.loopOf[h] = i + 1
	}
	rc := &runCtx{back: back, bodies: bodies, exits: map[*ssa.BasicBlock]map[*ssa.BasicBlock]*State{}, done: map[*ssa.BasicBlock]bool{}}
	order := rpo(fn, back)
	for _, b := range order {
		if rc.done[b] {
			continue
		}
		var cur *State
		var phiVals map[*ssa.Phi]string
		if b == fn.Blocks[0] {
			cur = st.clone()
		} else {
			ins, inFrom := fr.gather(rc, b)
			if len(ins) == 0 {
				continue
			}
			cur, phiVals = fr.enter(b, ins, inFrom)
		}
		if ln, isHeader := fr.loopOf[b]; isHeader {
			if lc := fr.loopContract(ln); lc != nil && lc.Unroll > 0 {
				fr.unroll(rc, b, ln, lc.Unroll, order, cur, phiVals)
				continue
			}
			cur = fr.loopCut(b, ln, bodies[b], cur, phiVals)
		} else {
			for phi, v := range phiVals {
				fr.env[phi] = v
			}
		}
		if !fr.execBlock(b, cur) {
			continue
		}
		fr.emitEdges(rc, b, cur, func(to *ssa.BasicBlock, es *State) { fr.loopBack(b, to, es) }, nil)
	}
	if len(fr.panicStates) > 0 && fn.Recover != nil {
		// panics caught by this function's deferred recover(): the deferred functions run in the panicking state (recover()
		// returns non-nil there), then the function returns through its recover block with the named results as they are
		ps := x.merge(fr.panicStates)
		fr.panicStates = nil
		x.c.comment(fr.key + ": recovered panic path")
		x.panicDepth++
		fr.runDefers(ps)
		x.panicDepth--
		fr.execBlock(fn.Recover, ps)
	}
	if len(fr.rets) == 0 {
		return nil
	}
	var sts []*State
	for _, r := range fr.rets {
		sts = append(sts, r.st)
	}
	out := &retInfo{st: x.merge(sts)}
	nres := fn.Signature.Results().Len()
	for i := 0; i < nres; i++ {
		var vals []string
		for _, r := range fr.rets {
			vals = append(vals, r.results[i])
		}
		out.results = append(out.results, x.mergeVals(sts, vals, x.c.sortOf(fn.Signature.Results().At(i).Type())))
	}
	return out
}

// forward predecessors' edge states
func (fr *Frame) gather(rc *runCtx, b *ssa.BasicBlock) (ins []*State, inFrom []*ssa.BasicBlock) {
	for _, p := range b.Preds {
		if rc.back[[2]int{p.Index, b.Index}] {
			continue
		}
		if es, ok := rc.exits[p][b]; ok && es != nil {
			ins = append(ins, es)
			inFrom = append(inFrom, p)
		}
	}
	return
}

func (fr *Frame) enter(b *ssa.BasicBlock, ins []*State, inFrom []*ssa.BasicBlock) (*State, map[*ssa.Phi]string) {
	x := fr.x
	cur := x.merge(ins)
	phiVals := map[*ssa.Phi]string{}
	for _, in := range b.Instrs {
		phi, ok := in.(*ssa.Phi)
		if !ok {
			break
		}
		var vals []string
		for _, p := range inFrom {
			for pi, bp := range b.Preds {
				if bp == p {
					vals = append(vals, fr.val(phi.Edges[pi]))
					break
				}
			}
		}
		phiVals[phi] = x.mergeVals(ins, vals, x.c.sortOf(phi.Type()))
	}
	return cur, phiVals
}

func (fr *Frame) execBlock(b *ssa.BasicBlock, cur *State) bool {
	fr.x.c.comment(fmt.Sprintf("%s block %d (%s)", fr.key, b.Index, b.Comment))
	for _, in := range b.Instrs {
		if _, ok := in.(*ssa.Phi); ok {
			continue
		}
		if !fr.instr(cur, in) {
			return false
		}
	}
	return true
}

// emitEdges records the state on each outgoing edge. Back edges go to onBack. If route is non-nil it
// gets first refusal on every edge (used by unrolling).
func (fr *Frame) emitEdges(rc *runCtx, b *ssa.BasicBlock, cur *State, onBack func(to *ssa.BasicBlock, es *State), route func(to *ssa.BasicBlock, es *State) bool) {
	x := fr.x
	last := b.Instrs[len(b.Instrs)-1]
	if rc.exits[b] == nil {
		rc.exits[b] = map[*ssa.BasicBlock]*State{}
	}
	emit := func(to *ssa.BasicBlock, cond string) {
		es := cur.clone()
		if cond != "true" {
			es.Reach = x.c.define("R", "Bool", and(cur.Reach, cond))
		}
		if route != nil && route(to, es) {
			return
		}
		if rc.back[[2]int{b.Index, to.Index}] {
			onBack(to, es)
			return
		}
		if prev, ok := rc.exits[b][to]; ok && prev != nil {
			rc.exits[b][to] = x.merge([]*State{prev, es})
			return
		}
		rc.exits[b][to] = es
	}
	switch t := last.(type) {
	case *ssa.If:
		cnd := fr.val(t.Cond)
		emit(b.Succs[0], cnd)
		emit(b.Succs[1], not(cnd))
	case *ssa.Jump:
		emit(b.Succs[0], "true")
	case *ssa.Return, *ssa.Panic:
	default:
		panic(fmt.Sprintf("unexpected terminator %T", last))
	}
}

type backIn struct {
	st   *State
	phis map[*ssa.Phi]string
}

// unroll executes the loop with header h up to n times; an "unwind" obligation states that no
// further iteration is reachable, which makes the unrolling complete rather than bounded.
func (fr *Frame) unroll(rc *runCtx, h *ssa.BasicBlock, ln, n int, order []*ssa.BasicBlock, entry *State, entryPhis map[*ssa.Phi]string) {
	x := fr.x
	c := x.c
	body := rc.bodies[h]
	var blocks []*ssa.BasicBlock
	for _, b := range order {
		if body[b] {
			blocks = append(blocks, b)
			rc.done[b] = true
		}
	}
	// values defined in the loop and used outside it
	liveOut := map[ssa.Value]bool{}
	for _, b := range blocks {
		for _, in := range b.Instrs {
			v, ok := in.(ssa.Value)
			if !ok || v.Referrers() == nil {
				continue
			}
			for _, r := range *v.Referrers() {
				if !body[r.Block()] {
					liveOut[v] = true
				}
			}
		}
	}
	type outVal struct {
		reach string
		term  string
	}
	outs := map[ssa.Value][]outVal{}
	outTups := map[ssa.Value][][]string{}
	_ = outTups
	inputs := []backIn{{entry, entryPhis}}
	for it := 0; ; it++ {
		c.comment(fmt.Sprintf("loop %d of %s: unrolled iteration %d", ln, fr.key, it))
		// merge inputs
		var sts []*State
		for _, in := range inputs {
			sts = append(sts, in.st)
		}
		cur := x.merge(sts)
		for _, ins := range h.Instrs {
			phi, ok := ins.(*ssa.Phi)
			if !ok {
				break
			}
			var vals []string
			for _, in := range inputs {
				vals = append(vals, in.phis[phi])
			}
			fr.env[phi] = x.mergeVals(sts, vals, c.sortOf(phi.Type()))
		}
		if it == n {
			nm := fmt.Sprintf("%s#unwind:loop%d", x.target, ln)
			if !fr.top {
				nm = fmt.Sprintf("%s#unwind:%s:loop%d", x.target, fr.prefix, ln)
			}
			c.oblige(nm, "unwind", x.target, fmt.Sprintf("loop %d finishes within %d iterations", ln, n), fr.pos(h.Instrs[0].Pos()), cur.Reach, "false", x.topReqs)
			break
		}
		local := map[*ssa.BasicBlock]map[*ssa.BasicBlock]*State{}
		var next []backIn
		for _, b := range blocks {
			var bcur *State
			if b == h {
				bcur = cur
			} else {
				var ins []*State
				var inFrom []*ssa.BasicBlock
				for _, p := range b.Preds {
					if es, ok := local[p][b]; ok && es != nil {
						ins = append(ins, es)
						inFrom = append(inFrom, p)
					}
				}
				if len(ins) == 0 {
					continue
				}
				var pv map[*ssa.Phi]string
				bcur, pv = fr.enter(b, ins, inFrom)
				if iln, isInner := fr.loopOf[b]; isInner {
					bcur = fr.loopCut(b, iln, rc.bodies[b], bcur, pv)
				} else {
					for phi, v := range pv {
						fr.env[phi] = v
					}
				}
			}
			if !fr.execBlock(b, bcur) {
				continue
			}
			bb := b
			fr.emitEdges(rc, b, bcur, func(to *ssa.BasicBlock, es *State) { fr.loopBack(bb, to, es) }, func(to *ssa.BasicBlock, es *State) bool {
				if to == h {
					phis := map[*ssa.Phi]string{}
					for _, ins := range h.Instrs {
						phi, ok := ins.(*ssa.Phi)
						if !ok {
							break
						}
						for pi, bp := range h.Preds {
							if bp == bb {
								phis[phi] = fr.val(phi.Edges[pi])
							}
						}
					}
					next = append(next, backIn{es, phis})
					return true
				}
				if body[to] {
					if rc.back[[2]int{bb.Index, to.Index}] {
						return false // inner loop back edge
					}
					if local[bb] == nil {
						local[bb] = map[*ssa.BasicBlock]*State{}
					}
					if prev, ok := local[bb][to]; ok && prev != nil {
						local[bb][to] = x.merge([]*State{prev, es})
					} else {
						local[bb][to] = es
					}
					return true
				}
				// exit edge: snapshot live-out values under this edge's reach
				for v := range liveOut {
					if t, ok := fr.env[v]; ok {
						outs[v] = append(outs[v], outVal{es.Reach, t})
					}
				}
				return false // recorded in rc.exits (merged with earlier iterations)
			})
		}
		if len(next) == 0 {
			break
		}
		inputs = next
	}
	for v, ovs := range outs {
		t := ovs[len(ovs)-1].term
		for i := len(ovs) - 2; i >= 0; i-- {
			t = ite(ovs[i].reach, ovs[i].term, t)
		}
		fr.env[v] = c.define(v.Name()+"_out", c.sortOf(v.Type()), t)
	}
}
