package govc

import (
	"bufio"
	"fmt"
	"os"
	"path/filepath"
	"regexp"
	"strconv"
	"strings"
)

type Clause struct {
	Name string
	Text string
	E    Expr
	File string
	Line int
}

type LoopContract struct {
	N          int
	Finger     string
	Invariants []*Clause
	Modifies   []*Clause
	Unroll     int
}

// lockinv <mutex> protects [name:] <expr>: the invariant of the state a mutex protects (M1, checked per function):
// assumed whenever this function acquires the mutex, an obligation whenever it releases it.
//
// lockowns <mutex> grants [name:] <expr>: a fact about the protected state that follows from a resource this goroutine
// holds (a counting-permission argument that is not machine-checked): assumed on acquiring the mutex, never checked;
// every such clause is listed among the assumptions of the evidence.
type LockInv struct {
	Mu         Expr
	Clause     *Clause
	AssumeOnly bool
}

type CallSpec struct {
	Callee string // function key (or suffix pattern) of the callee
	Clause *Clause
}

type FnContract struct {
	Key      string
	Arith    string // "", "bv", "int"
	Trusted  bool   // ensures are assumed; body not verified (external or out-of-subset)
	Inline   bool   // never use contract at call sites; always inline (loop contracts only)
	Requires []*Clause
	Ensures  []*Clause
	Modifies []*Clause // nil + !ModAll => pure
	ModAll   bool
	ModTypes []string // "modifies types ...": fields of objects of these struct types, and maps
	Loops    map[int]*LoopContract
	Calls    []CallSpec
	LockInvs []LockInv
	Aliases  []AliasSpec
	Counts   []*Clause // postconditions over count(...) — same as ensures but kept apart for naming
	PanicsIf []*Clause
	Ghost    []GhostAssign
	Options  map[string]string
	File     string
	Line     int
	HasSpec  bool // has requires/ensures/modifies (usable at call sites)
	// for closures: names given to free variables are the source names
}

type GhostMap struct{ Name, Key, Val string }

type GhostAssign struct {
	Map  string
	Key  Expr
	Val  Expr
	Text string
	Line int
}

type Lemma struct {
	Name    string
	Clause  *Clause
	Assumed bool // axiom
	Arith   string
	File    string
}

type GlobalSpecs struct {
	Lemmas  []*Lemma
	Callers []*Clause // closed caller sets: "callee = {a, b}"
	Stores  []*Clause // "T.f only in {a, b}"
}

var clauseKw = map[string]bool{"func": true, "arith": true, "trusted": true, "pure": true, "requires": true, "ensures": true, "modifies": true, "loop": true,
	"invariant": true, "callsite": true, "lemma": true, "axiom": true, "inline": true, "panics": true, "option": true, "unroll": true, "callers": true, "stores": true, "spec": true, "ghost": true, "lockinv": true, "lockowns": true, "alias": true}

// AliasSpec: a name for a local variable given by its role, not by what the source calls it
type AliasSpec struct{ Name, Param, Callee string }

var aliasRe = regexp.MustCompile(`^\s*(\w+)\s*=\s*pointee\(\s*\$(\w+)\s+of\s+(.+)\)\s*$`)

var nameRe = regexp.MustCompile(`^([A-Za-z_][A-Za-z0-9_\-]*):\s+(.*)$`)

// ReadContracts reads every contracts_verif.go under repo (and extra spec files) into w.Contracts.
func (w *World) ReadContracts(paths ...string) error {
	w.Globals = &GlobalSpecs{}
	var files []string
	for _, p := range paths {
		st, err := os.Stat(p)
		if err != nil {
			return err
		}
		if !st.IsDir() {
			files = append(files, p)
			continue
		}
		filepath.Walk(p, func(path string, info os.FileInfo, err error) error {
			if err != nil {
				return nil
			}
			if info.IsDir() && (info.Name() == ".git" || info.Name() == "cmd") {
				return filepath.SkipDir
			}
			if !info.IsDir() && (info.Name() == "contracts_verif.go" || strings.HasSuffix(info.Name(), ".spec")) {
				files = append(files, path)
			}
			return nil
		})
	}
	for _, f := range files {
		if err := w.readContractFile(f); err != nil {
			return fmt.Errorf("%s: %w", f, err)
		}
		w.Files = append(w.Files, f)
	}
	return nil
}

type rawLine struct {
	kw   string
	rest string
	line int
}

func (w *World) readContractFile(path string) error {
	fh, err := os.Open(path)
	if err != nil {
		return err
	}
	defer fh.Close()
	sc := bufio.NewScanner(fh)
	sc.Buffer(make([]byte, 1<<20), 1<<20)
	var lines []rawLine
	ln := 0
	for sc.Scan() {
		ln++
		t := strings.TrimSpace(sc.Text())
		if !strings.HasPrefix(t, "//@") {
			continue
		}
		t = strings.TrimSpace(t[3:])
		if t == "" || strings.HasPrefix(t, "#") {
			continue
		}
		// strip trailing comment
		if i := strings.Index(t, " //"); i >= 0 {
			t = strings.TrimSpace(t[:i])
		}
		kw := t
		rest := ""
		if i := strings.IndexAny(t, " \t"); i >= 0 {
			kw, rest = t[:i], strings.TrimSpace(t[i+1:])
		}
		if clauseKw[kw] {
			lines = append(lines, rawLine{kw, rest, ln})
		} else if len(lines) > 0 {
			lines[len(lines)-1].rest += " " + t
		} else {
			return fmt.Errorf("line %d: continuation without clause", ln)
		}
	}
	var cur *FnContract
	var curLoop *LoopContract
	mk := func(l rawLine, allowName bool) (*Clause, error) {
		c := &Clause{Text: l.rest, File: path, Line: l.line}
		txt := l.rest
		if allowName {
			if m := nameRe.FindStringSubmatch(txt); m != nil && !strings.HasPrefix(m[2], ":") {
				c.Name, txt = m[1], m[2]
				c.Text = txt
			}
		}
		e, err := ParseExpr(txt)
		if err != nil {
			return nil, fmt.Errorf("line %d: %v", l.line, err)
		}
		c.E = e
		return c, nil
	}
	for _, l := range lines {
		switch l.kw {
		case "func":
			key := strings.TrimSpace(l.rest)
			if _, dup := w.Contracts[key]; dup {
				return fmt.Errorf("line %d: duplicate contract for %s", l.line, key)
			}
			cur = &FnContract{Key: key, Loops: map[int]*LoopContract{}, Options: map[string]string{}, File: path, Line: l.line}
			w.Contracts[key] = cur
			curLoop = nil
			continue
		case "spec":
			// spec uf NAME(p T, ...) R        uninterpreted function
			// spec def NAME(p T, ...) R = e   defined (macro) function
			if err := w.parseSpec(l, path); err != nil {
				return err
			}
			continue
		case "ghost":
			// global:      ghost map NAME KEYTYPE VALTYPE
			// in contract: ghost NAME[key] = expr        (executed after the call / at function exit)
			f := strings.Fields(l.rest)
			if len(f) == 4 && f[0] == "map" {
				if w.GhostMaps == nil {
					w.GhostMaps = map[string]*GhostMap{}
				}
				w.GhostMaps[f[1]] = &GhostMap{Name: f[1], Key: f[2], Val: f[3]}
				continue
			}
			if cur == nil {
				return fmt.Errorf("line %d: ghost assignment outside func", l.line)
			}
			i := strings.Index(l.rest, "=")
			for i > 0 && i+1 < len(l.rest) && (l.rest[i+1] == '=' || l.rest[i-1] == '!' || l.rest[i-1] == '<' || l.rest[i-1] == '>' || l.rest[i-1] == '=') {
				j := strings.Index(l.rest[i+2:], "=")
				if j < 0 {
					i = -1
					break
				}
				i = i + 2 + j
			}
			if i <= 0 {
				return fmt.Errorf("line %d: ghost NAME[key] = expr", l.line)
			}
			lhs, err := ParseExpr(strings.TrimSpace(l.rest[:i]))
			if err != nil {
				return fmt.Errorf("line %d: %v", l.line, err)
			}
			ix, ok := lhs.(EIndex)
			id, ok2 := ix.X.(EIdent)
			if !ok || !ok2 {
				return fmt.Errorf("line %d: ghost assignment target must be NAME[key]", l.line)
			}
			rhs, err := ParseExpr(strings.TrimSpace(l.rest[i+1:]))
			if err != nil {
				return fmt.Errorf("line %d: %v", l.line, err)
			}
			cur.Ghost = append(cur.Ghost, GhostAssign{Map: id.Name, Key: ix.I, Val: rhs, Text: l.rest, Line: l.line})
			cur.HasSpec = true
			continue
		case "lemma", "axiom":
			c, err := mk(l, true)
			if err != nil {
				return err
			}
			if c.Name == "" {
				return fmt.Errorf("line %d: lemma needs a name", l.line)
			}
			arith := ""
			if strings.HasPrefix(c.Name, "int-") {
				arith = "int"
			}
			w.Globals.Lemmas = append(w.Globals.Lemmas, &Lemma{Name: c.Name, Clause: c, Assumed: l.kw == "axiom", Arith: arith, File: path})
			continue
		}
		if cur == nil {
			return fmt.Errorf("line %d: %s outside func", l.line, l.kw)
		}
		switch l.kw {
		case "arith":
			cur.Arith = l.rest
		case "trusted":
			cur.Trusted = true
			cur.HasSpec = true
		case "pure":
			cur.HasSpec = true
		case "inline":
			cur.Inline = true
		case "option":
			kv := strings.SplitN(l.rest, " ", 2)
			v := ""
			if len(kv) > 1 {
				v = kv[1]
			}
			cur.Options[kv[0]] = v
		case "requires", "ensures", "panics":
			if l.kw == "panics" {
				l.rest = strings.TrimPrefix(l.rest, "if ")
			}
			c, err := mk(l, true)
			if err != nil {
				return err
			}
			cur.HasSpec = true
			switch l.kw {
			case "requires":
				cur.Requires = append(cur.Requires, c)
			case "ensures":
				cur.Ensures = append(cur.Ensures, c)
			default:
				cur.PanicsIf = append(cur.PanicsIf, c)
			}
		case "modifies":
			cur.HasSpec = true
			if strings.HasPrefix(strings.TrimSpace(l.rest), "types ") {
				// modifies types T1, T2: any field of any object of these struct types (and any map content);
				// nothing else. Backed by the structural check "writes-within".
				if curLoop != nil {
					return fmt.Errorf("line %d: loop modifies types not supported", l.line)
				}
				for _, t := range splitTopComma(strings.TrimPrefix(strings.TrimSpace(l.rest), "types ")) {
					cur.ModTypes = append(cur.ModTypes, strings.TrimSpace(t))
				}
				cur.HasSpec = true
				continue
			}
			if strings.TrimSpace(l.rest) == "*" {
				if curLoop != nil {
					return fmt.Errorf("line %d: loop modifies * not supported", l.line)
				}
				cur.ModAll = true
				continue
			}
			for _, part := range splitTopComma(l.rest) {
				c, err := mk(rawLine{l.kw, part, l.line}, false)
				if err != nil {
					return err
				}
				if curLoop != nil {
					curLoop.Modifies = append(curLoop.Modifies, c)
				} else {
					cur.Modifies = append(cur.Modifies, c)
				}
			}
		case "loop":
			parts := strings.SplitN(l.rest, " ", 2)
			n, err := strconv.Atoi(strings.TrimSuffix(parts[0], ":"))
			if err != nil {
				return fmt.Errorf("line %d: loop number: %v", l.line, err)
			}
			curLoop = &LoopContract{N: n}
			if len(parts) > 1 {
				curLoop.Finger = parts[1]
			}
			cur.Loops[n] = curLoop
		case "unroll":
			if curLoop == nil {
				return fmt.Errorf("line %d: unroll outside loop", l.line)
			}
			n, err := strconv.Atoi(l.rest)
			if err != nil {
				return err
			}
			curLoop.Unroll = n
		case "invariant":
			if curLoop == nil {
				return fmt.Errorf("line %d: invariant outside loop", l.line)
			}
			c, err := mk(l, true)
			if err != nil {
				return err
			}
			curLoop.Invariants = append(curLoop.Invariants, c)
		case "alias":
			// alias NAME = pointee($PARAM of CALLEE): NAME denotes the variable whose address the function passes as
			// parameter PARAM to (its first call of) CALLEE, whatever that variable is called in the source
			m := aliasRe.FindStringSubmatch(l.rest)
			if m == nil {
				return fmt.Errorf("line %d: alias NAME = pointee($PARAM of CALLEE)", l.line)
			}
			cur.Aliases = append(cur.Aliases, AliasSpec{Name: m[1], Param: m[2], Callee: strings.TrimSpace(m[3])})
		case "lockinv", "lockowns":
			sep := " protects "
			if l.kw == "lockowns" {
				sep = " grants "
			}
			parts := strings.SplitN(l.rest, sep, 2)
			if len(parts) != 2 {
				return fmt.Errorf("line %d: %s <mutex>%s[name:] expr", l.line, l.kw, sep)
			}
			mu, err := ParseExpr(strings.TrimSpace(parts[0]))
			if err != nil {
				return fmt.Errorf("line %d: %v", l.line, err)
			}
			c, err := mk(rawLine{l.kw, parts[1], l.line}, true)
			if err != nil {
				return err
			}
			cur.LockInvs = append(cur.LockInvs, LockInv{Mu: mu, Clause: c, AssumeOnly: l.kw == "lockowns"})
		case "callsite":
			parts := strings.SplitN(l.rest, " ", 2)
			if len(parts) != 2 {
				return fmt.Errorf("line %d: callsite <callee> [name:] expr", l.line)
			}
			c, err := mk(rawLine{l.kw, parts[1], l.line}, true)
			if err != nil {
				return err
			}
			cur.Calls = append(cur.Calls, CallSpec{Callee: parts[0], Clause: c})
		default:
			return fmt.Errorf("line %d: unknown clause %s", l.line, l.kw)
		}
	}
	return nil
}

func splitTopComma(s string) []string {
	var out []string
	d := 0
	start := 0
	for i, c := range s {
		switch c {
		case '(', '[', '{':
			d++
		case ')', ']', '}':
			d--
		case ',':
			if d == 0 {
				out = append(out, strings.TrimSpace(s[start:i]))
				start = i + 1
			}
		}
	}
	out = append(out, strings.TrimSpace(s[start:]))
	return out
}

type SpecDef struct {
	Name   string
	Params []QVar
	Result string
	Body   Expr
	Text   string
	File   string
}

var specHeadRe = regexp.MustCompile(`^(uf|def)\s+([A-Za-z_][A-Za-z0-9_]*)\s*\(([^)]*)\)\s*([^=]*?)\s*(?:=\s*(.*))?$`)

func (w *World) parseSpec(l rawLine, path string) error {
	m := specHeadRe.FindStringSubmatch(strings.TrimSpace(l.rest))
	if m == nil {
		return fmt.Errorf("line %d: bad spec declaration: %s", l.line, l.rest)
	}
	var ps []QVar
	if strings.TrimSpace(m[3]) != "" {
		for _, p := range splitTopComma(m[3]) {
			f := strings.Fields(p)
			if len(f) != 2 {
				return fmt.Errorf("line %d: bad parameter %q", l.line, p)
			}
			ps = append(ps, QVar{f[0], f[1]})
		}
	}
	if w.SpecUFs == nil {
		w.SpecUFs = map[string]*SpecUF{}
	}
	if w.SpecDefs == nil {
		w.SpecDefs = map[string]*SpecDef{}
	}
	if m[1] == "uf" {
		uf := &SpecUF{Name: m[2], Result: strings.TrimSpace(m[4])}
		for _, p := range ps {
			uf.Params = append(uf.Params, p.Type)
		}
		w.SpecUFs[m[2]] = uf
		return nil
	}
	if m[5] == "" {
		return fmt.Errorf("line %d: spec def needs '= expr'", l.line)
	}
	e, err := ParseExpr(m[5])
	if err != nil {
		return fmt.Errorf("line %d: %v", l.line, err)
	}
	w.SpecDefs[m[2]] = &SpecDef{Name: m[2], Params: ps, Result: strings.TrimSpace(m[4]), Body: e, Text: m[5], File: path}
	return nil
}
