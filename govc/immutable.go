package govc

import (
	"go/types"
	"regexp"
	"strconv"
	"strings"

	"golang.org/x/tools/go/ssa"
)

// Captured variables that are assigned only once, before any closure that captures them is created (a method
// receiver or parameter captured by a goroutine body, a local initialised once), keep their value for the life of
// every closure: no code of the program stores to them again. The check is syntactic over the SSA of the enclosing
// function and all closures nested in it: the variable's cell is used only as the address of loads, of that one
// store, and as a closure binding.

type immutCell struct {
	loc string
	val string
	ty  types.Type
}

// writesTo counts the stores to the cell v (an Alloc of fn, or a free variable of fn) in fn and in the closures fn
// creates; escapes reports any other use of the cell's address.
func cellUses(fn *ssa.Function, v ssa.Value, seen map[*ssa.Function]bool) (stores int, escapes bool) {
	if seen[fn] {
		return 0, false
	}
	seen[fn] = true
	refs := v.Referrers()
	if refs == nil {
		return 0, true
	}
	for _, r := range *refs {
		switch r := r.(type) {
		case *ssa.Store:
			if r.Addr == v && r.Val != v {
				stores++
			} else {
				escapes = true
			}
		case *ssa.UnOp:
			// load
		case *ssa.DebugRef:
		case *ssa.MakeClosure:
			cf, ok := r.Fn.(*ssa.Function)
			if !ok {
				escapes = true
				continue
			}
			for i, b := range r.Bindings {
				if b == v && i < len(cf.FreeVars) {
					s, e := cellUses(cf, cf.FreeVars[i], seen)
					stores += s
					escapes = escapes || e
				}
			}
		default:
			escapes = true
		}
	}
	return
}

// immutableFreeVar: is free variable k of closure fn a cell that is written exactly once, in the function that
// declares it?
func immutableFreeVar(fn *ssa.Function, k int) bool {
	// find the declaring function and the cell
	cur, idx := fn, k
	for {
		parent := cur.Parent()
		if parent == nil {
			return false
		}
		var cell ssa.Value
		for _, b := range parent.Blocks {
			for _, in := range b.Instrs {
				if mc, ok := in.(*ssa.MakeClosure); ok && mc.Fn == cur && idx < len(mc.Bindings) {
					cell = mc.Bindings[idx]
				}
			}
		}
		if cell == nil {
			return false
		}
		switch c := cell.(type) {
		case *ssa.Alloc:
			stores, esc := cellUses(parent, c, map[*ssa.Function]bool{})
			if esc || stores != 1 {
				return false
			}
			// the one store is in the declaring function, in the block of the allocation (its initialisation)
			for _, r := range *c.Referrers() {
				if s, ok := r.(*ssa.Store); ok && s.Addr == c {
					if s.Block() != c.Block() {
						return false
					}
					// every closure that captures the cell is created after that store
					for _, r2 := range *c.Referrers() {
						if mc, ok := r2.(*ssa.MakeClosure); ok && mc.Block() == s.Block() && instrIndex(mc.Block(), mc) < instrIndex(s.Block(), s) {
							return false
						}
					}
					return true
				}
			}
			return false
		case *ssa.FreeVar:
			for i, f := range parent.FreeVars {
				if f == c {
					cur, idx = parent, i
				}
			}
			if cur != parent {
				return false
			}
		default:
			return false
		}
	}
}

// after a havoc of the whole heap (re-acquired lock, loop head, callee that modifies everything): immutable captured
// variables still hold what they held on entry
func (x *Exec) reassumeImmutable(st *State) {
	for _, ic := range x.immut {
		x.c.assume(eq(x.load(st, ic.ty, ic.loc), ic.val))
	}
}

// a freshly allocated object's mutexes are unlocked (their zero value)
func (x *Exec) unlockedInit(st *State, t types.Type, loc string, depth int) {
	t = types.Unalias(t)
	if n, ok := t.(*types.Named); ok && n.Obj().Pkg() != nil {
		full := n.Obj().Pkg().Path() + "." + n.Obj().Name()
		if strings.HasSuffix(full, "sync.Mutex") || strings.HasSuffix(full, "sync.RWMutex") {
			x.set(st, "lock", sx("store", x.get(st, "lock"), loc, "0"))
			x.freshMutexes = append(x.freshMutexes, loc)
			return
		}
	}
	if depth > 4 {
		return
	}
	if u, ok := t.Underlying().(*types.Struct); ok {
		for i := 0; i < u.NumFields(); i++ {
			x.unlockedInit(st, u.Field(i).Type(), fld(loc, i), depth+1)
		}
	}
}

var recordedRe = regexp.MustCompile(`recorded\("([^"]*)"\)`)

// aboutCalleeEvents: does a postcondition speak about the callee's own ghost events (call counters, select outcomes,
// values recorded under names other than the one the call itself records)?
func aboutCalleeEvents(e Expr, ct *FnContract) bool {
	s := e.String()
	for _, k := range []string{"count(", "selected(", "offers(", "lastnow("} {
		if strings.Contains(s, k) {
			return true
		}
	}
	for _, m := range recordedRe.FindAllStringSubmatch(s, -1) {
		if m[1] != ct.Options["records"] && m[1] != ct.Options["records1"] {
			return true
		}
	}
	return false
}

// ---- type-based separation of call results from the function's own local objects -------------------------------

type localObj struct {
	ref string
	ty  types.Type
}

// containsType: does an object of type t contain (at any depth, by value) a part of type target?
func containsType(t, target types.Type, depth int) bool {
	if types.Identical(t, target) {
		return true
	}
	if depth > 6 {
		return true // give up: assume it might
	}
	switch u := types.Unalias(t).Underlying().(type) {
	case *types.Struct:
		for i := 0; i < u.NumFields(); i++ {
			if containsType(u.Field(i).Type(), target, depth+1) {
				return true
			}
		}
	case *types.Array:
		return containsType(u.Elem(), target, depth+1)
	case *types.Interface:
		return false
	}
	return false
}

// typeSeparation: a pointer to T that a callee returns cannot point into a local object of this function whose type
// has no part of type T (Go is type safe; the module does not use unsafe). Without this the solver may let, say, a
// *bep44.Item returned by a store alias the krpc.Return the function is filling in.
func (x *Exec) typeSeparation(t types.Type, v string) {
	pt, ok := types.Unalias(t).Underlying().(*types.Pointer)
	if !ok {
		return
	}
	if _, isStruct := pt.Elem().Underlying().(*types.Struct); !isStruct {
		return
	}
	for _, lo := range x.localObjs {
		if !containsType(lo.ty, pt.Elem(), 0) {
			x.c.assume(or(eq(v, "nil"), not(eq(sx("ref", v), lo.ref))))
		}
	}
}

// typeArgText: the type argument of typeis/unbox: an expression that reads as a type name, or a string literal for types
// the expression syntax cannot spell ("[]interface{}")
func typeArgText(e Expr) string {
	if l, ok := e.(ELit); ok && l.Kind == "string" {
		if s, err := strconv.Unquote(l.Val); err == nil {
			return s
		}
	}
	return e.String()
}

// noteMatched: a call-site clause of the function under verification applied to at least one site
func (x *Exec) noteMatched(cl *Clause) {
	if x.csMatched == nil {
		x.csMatched = map[*Clause]bool{}
	}
	x.csMatched[cl] = true
}

// bindAliases: "alias NAME = pointee($PARAM of CALLEE)" clauses of the function under verification take effect at its
// first call of CALLEE: NAME then denotes the variable whose address is passed as PARAM (directly, or boxed in an
// interface as decoders' "into" arguments are).
func (x *Exec) bindAliases(fr *Frame, ct *FnContract, key string, callee *ssa.Function, cc *ssa.CallCommon) {
	for _, al := range ct.Aliases {
		if _, done := x.aliases[al.Name]; done {
			continue
		}
		if !(al.Callee == key || strings.HasSuffix(key, al.Callee) && (strings.HasPrefix(al.Callee, ".") || strings.HasPrefix(al.Callee, ")"))) {
			continue
		}
		idx := -1
		sig := cc.Signature()
		off := 0
		if sig.Recv() != nil && !cc.IsInvoke() {
			off = 1
		}
		for i := 0; i < sig.Params().Len(); i++ {
			if sig.Params().At(i).Name() == al.Param {
				idx = i + off
			}
		}
		if callee != nil {
			for i, p := range callee.Params {
				if p.Name() == al.Param {
					idx = i
				}
			}
		}
		if idx < 0 || idx >= len(cc.Args) {
			continue
		}
		var ptr ssa.Value = cc.Args[idx]
		if mi, ok := ptr.(*ssa.MakeInterface); ok {
			ptr = mi.X
		}
		if _, ok := ptr.Type().Underlying().(*types.Pointer); !ok {
			continue
		}
		if x.aliases == nil {
			x.aliases = map[string]Val{}
		}
		x.aliases[al.Name] = Val{T: fr.val(ptr), Ty: ptr.Type(), ptrToVar: true}
	}
}
