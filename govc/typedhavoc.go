package govc

import (
	"go/types"
	"os"
	"strings"

	"golang.org/x/tools/go/ssa"
)

// Typed frames. A contract may say "modifies types T1, T2": the callee writes only fields of objects of
// these struct types (and map contents). After such a call every heap component is havoced, and a
// record is kept; whenever a field is later read whose *owner* (the struct type that directly
// declares the cell, or "raw:<elem>" for cells reached through plain pointers / slice elements) is
// not among the callee's types, the read cell is known to be unchanged by that call. This is Go's type
// safety (no unsafe in the module) plus the structural obligation "writes-within", which checks the
// callee's transitive stores against the declared types on every run.

type thEvent struct {
	pre, post *State
	allowed   map[string]bool
	callee    string
	bytesKept bool
}

func ownerName(t types.Type) string {
	return ShortName(types.TypeString(types.Unalias(t), nil))
}

// owner of the cell an address denotes, from the SSA address chain
func ownerOfAddr(v ssa.Value) string {
	for {
		switch a := v.(type) {
		case *ssa.FieldAddr:
			if g, ok := rootOfAddr(a).(*ssa.Global); ok {
				return "global:" + ShortName(g.String()) // a field of a package-level struct variable, accessed by name
			}
			return ownerName(a.X.Type().Underlying().(*types.Pointer).Elem())
		case *ssa.IndexAddr:
			switch a.X.Type().Underlying().(type) {
			case *types.Pointer: // element of an array: the cell belongs to whatever holds the array
				v = a.X
				continue
			case *types.Slice:
				return "raw:" + ownerName(a.X.Type().Underlying().(*types.Slice).Elem())
			}
			return ""
		case *ssa.Alloc:
			// a local variable's cell: written only by this function or by closures that capture it
			if _, isStruct := a.Type().Underlying().(*types.Pointer).Elem().Underlying().(*types.Struct); isStruct {
				return ownerName(a.Type().Underlying().(*types.Pointer).Elem())
			}
			return "local"
		case *ssa.FreeVar:
			if _, isStruct := a.Type().Underlying().(*types.Pointer).Elem().Underlying().(*types.Struct); isStruct {
				return ownerName(a.Type().Underlying().(*types.Pointer).Elem())
			}
			return "local"
		case *ssa.Global:
			return "global:" + ShortName(a.String())
		default:
			if pt, ok := v.Type().Underlying().(*types.Pointer); ok {
				if _, isStruct := pt.Elem().Underlying().(*types.Struct); !isStruct {
					return "raw:" + ownerName(pt.Elem())
				}
			}
			return ""
		}
	}
}

// frameFacts: cell (key, loc) with the given owner was not written by any typed-havoc call that does not list the owner
func (x *Exec) frameFacts(key, loc, owner string) {
	if os.Getenv("GOVC_DEBUG") != "" && strings.Contains(loc, "t216") {
		println("frameFacts", key, loc, owner, len(x.typedHavocs), x.c.mentionsBound(loc))
	}
	if owner == "" || x.c.mentionsBound(loc) {
		return
	}
	for _, e := range x.typedHavocs {
		if e.allowed[owner] {
			continue
		}
		mk := e.callee + "|" + key + "|" + loc
		if x.thDone[mk] {
			continue
		}
		x.thDone[mk] = true
		x.c.assume(eq(sx("select", x.get(e.post, key), loc), sx("select", x.get(e.pre, key), loc)))
	}
}

func (x *Exec) typedHavoc(st *State, pre *State, ct *FnContract, resolve func(string) string) {
	e := &thEvent{pre: pre, allowed: map[string]bool{}, callee: ct.Key + "#" + x.c.fresh("th")}
	for _, t := range ct.ModTypes {
		if strings.HasPrefix(t, "raw:") {
			e.allowed[t] = true
			continue
		}
		e.allowed[resolve(t)] = true
	}
	x.havocAllHeap(st)
	e.post = st.clone()
	x.typedHavocs = append(x.typedHavocs, e)
	if x.thDone == nil {
		x.thDone = map[string]bool{}
	}
	// byte strings: unchanged as a whole when raw bytes are not among the callee's types
	if !e.allowed["raw:uint8"] && !e.allowed["raw:byte"] {
		e.bytesKept = true
	}
}

func typeListHas(list []string, s string) bool {
	for _, l := range list {
		if strings.TrimSpace(l) == s {
			return true
		}
	}
	return false
}

// typed-havoc step in the definition chain of a byte heap: the whole byte string content is kept
func (x *Exec) heapStepTH(h, key string) (parent string, ok bool) {
	for _, e := range x.typedHavocs {
		if e.bytesKept && x.get(e.post, key) == h {
			return x.get(e.pre, key), true
		}
	}
	return "", false
}

func rawOwner(elem types.Type) string {
	if _, isStruct := types.Unalias(elem).Underlying().(*types.Struct); isStruct {
		return ""
	}
	return "raw:" + ownerName(elem)
}

// entryValueFacts: a pointer (or slice) read from cell loc of heap h. If the definition chain of h leads back to
// the heap the function was entered with, the value that heap holds at loc was allocated before entry (every
// pointer stored in the entry heap refers to an object that existed then). Stated for the entry heap's own
// value at loc; the solver relates it to the value read through the chain of stores.
func (x *Exec) entryValueFacts(key, h, loc, owner, sort string) {
	if sort != "Loc" && sort != "Slice" {
		return
	}
	if x.c.mentionsBound(loc) {
		return
	}
	cur := h
	for i := 0; i < 400; i++ {
		if strings.HasSuffix(cur, "_0") && !strings.Contains(cur, "!") {
			mk := "entry|" + cur + "|" + loc
			if x.thDone == nil {
				x.thDone = map[string]bool{}
			}
			if x.thDone[mk] {
				return
			}
			x.thDone[mk] = true
			v := sx("select", cur, loc)
			if sort == "Loc" {
				x.c.assume(or(eq(v, "nil"), sx("<", sx("ref", v), "alloc_0")))
			} else {
				x.c.assume(or(eq(sx("sl_arr", v), "nil"), sx("<", sx("ref", sx("sl_arr", v)), "alloc_0")))
			}
			return
		}
		if p, _ := heapStep(cur); p != "" {
			cur = p
			continue
		}
		stepped := false
		for _, e := range x.typedHavocs {
			if owner != "" && !e.allowed[owner] && x.get(e.post, key) == cur {
				cur = x.get(e.pre, key)
				stepped = true
				break
			}
		}
		if !stepped {
			return
		}
	}
}

// resolveModTypes: the owner names a contract's "modifies types" clause denotes (type names are relative to the callee's package)
func (x *Exec) resolveModTypes(ct *FnContract, callee *ssa.Function) []string {
	var pkg *types.Package
	if callee != nil {
		f := callee
		for f.Parent() != nil {
			f = f.Parent()
		}
		if f.Pkg != nil {
			pkg = f.Pkg.Pkg
		} else if f.Object() != nil {
			pkg = f.Object().Pkg()
		}
	}
	sc := &Scope{x: x, pkg: pkg, vars: map[string]Val{}}
	var out []string
	for _, t := range ct.ModTypes {
		if strings.HasPrefix(t, "raw:") {
			out = append(out, t)
			continue
		}
		func() {
			defer func() {
				if r := recover(); r != nil {
					out = append(out, t)
				}
			}()
			if ty, _ := sc.typeByName(t); ty != nil {
				out = append(out, ownerName(ty))
			}
		}()
	}
	return out
}
