package govc

import (
	"fmt"
	"strconv"
	"strings"
)

// Peephole simplification at term construction: selector-of-constructor, constant folding of 64-bit
// bit-vector arithmetic and comparisons, looking through defined names. Purely an optimisation of the
// query text (every rewrite is a validity of the theory); it keeps unrolled loops and slice arithmetic
// from reaching the solver as case splits.

var activeDefs map[string]string // defined name -> term (generation is single-threaded)

func lookThrough(t string) string {
	for i := 0; i < 8; i++ {
		if strings.HasPrefix(t, "(") || activeDefs == nil {
			return t
		}
		d, ok := activeDefs[t]
		if !ok {
			return t
		}
		t = d
	}
	return t
}

var ctorSel = map[string]struct {
	ctor string
	idx  int
}{
	"sl_arr": {"mk_slice", 0}, "sl_off": {"mk_slice", 1}, "sl_len": {"mk_slice", 2}, "sl_cap": {"mk_slice", 3},
	"ref": {"at", 0}, "path": {"at", 1}, "pf_b": {"pf", 0}, "pf_k": {"pf", 1}, "pi_b": {"pi", 0}, "pi_i": {"pi", 1},
	"itag": {"mk_iface", 0}, "ibox": {"mk_iface", 1},
}

func bv64(t string) (uint64, bool) {
	t = lookThrough(t)
	if len(t) == 18 && strings.HasPrefix(t, "#x") {
		v, err := strconv.ParseUint(t[2:], 16, 64)
		return v, err == nil
	}
	return 0, false
}

func simp(op string, args []string) (string, bool) {
	if cs, ok := ctorSel[op]; ok && len(args) == 1 {
		a := lookThrough(args[0])
		pre := "(" + cs.ctor + " "
		if strings.HasPrefix(a, pre) {
			parts := splitTop(a[len(pre) : len(a)-1])
			if cs.idx < len(parts) {
				return parts[cs.idx], true
			}
		}
		return "", false
	}
	if len(args) == 2 {
		switch op {
		case "bvadd", "bvsub", "bvslt", "bvsle", "bvult", "bvule", "bvsgt", "bvsge", "bvugt", "bvuge":
			a, ok1 := bv64(args[0])
			b, ok2 := bv64(args[1])
			if ok1 && ok2 {
				bs := func(v bool) (string, bool) {
					if v {
						return "true", true
					}
					return "false", true
				}
				switch op {
				case "bvadd":
					return fmt.Sprintf("#x%016x", a+b), true
				case "bvsub":
					return fmt.Sprintf("#x%016x", a-b), true
				case "bvslt":
					return bs(int64(a) < int64(b))
				case "bvsle":
					return bs(int64(a) <= int64(b))
				case "bvsgt":
					return bs(int64(a) > int64(b))
				case "bvsge":
					return bs(int64(a) >= int64(b))
				case "bvult":
					return bs(a < b)
				case "bvule":
					return bs(a <= b)
				case "bvugt":
					return bs(a > b)
				case "bvuge":
					return bs(a >= b)
				}
			}
			if op == "bvadd" {
				if ok1 && a == 0 {
					return args[1], true
				}
				if ok2 && b == 0 {
					return args[0], true
				}
			}
			if op == "bvsub" && ok2 && b == 0 {
				return args[0], true
			}
		case "=":
			a, ok1 := bv64(args[0])
			b, ok2 := bv64(args[1])
			if ok1 && ok2 {
				if a == b {
					return "true", true
				}
				return "false", true
			}
			// distinct constructors of Loc
			x, y := lookThrough(args[0]), lookThrough(args[1])
			if (x == "nil" && strings.HasPrefix(y, "(at ")) || (y == "nil" && strings.HasPrefix(x, "(at ")) {
				return "false", true
			}
		}
	}
	return "", false
}
