package govc

import (
	"fmt"
	"go/token"
	"go/types"
	"os"
	"path/filepath"
	"regexp"
	"runtime/debug"
	"strings"
	"sync"
	"time"

	"golang.org/x/tools/go/ssa"
)

type FuncResult struct {
	Key     string
	Ctx     *Ctx
	Err     string // engine could not generate obligations (undecided)
	GenSecs float64
	Arith   string
	File    string

	recTypes map[string]types.Type
}

// special: stdlib/dependency calls given engine-level semantics (no contract text needed).
func (fr *Frame) special(st *State, v ssa.Value, key string, callee *ssa.Function, args []string, argTypes []types.Type, pos token.Pos) bool {
	x := fr.x
	c := x.c
	switch key {
	case "(*sync.WaitGroup).Wait":
		fr.blocking(st, "wg-wait", pos)
		return true
	case "time.Now":
		srt := c.sortOf(callee.Signature.Results().At(0).Type())
		t := c.freshConst("now", srt)
		if v != nil {
			fr.env[v] = t
		}
		st.Comp["g:lastnow|"+srt] = t
		return true
	}
	return false
}

type VerifyOpts struct {
	Safety  bool
	MaxInl  int
	recSeed map[string]types.Type
}

// VerifyFunc generates the obligations of one function against its contract.
// VerifyFunc generates the obligations of one function. Results recorded by callees ("option records") may be
// named by clauses that are evaluated before the recording call is reached in generation order, so a function
// that records anything is generated twice, the second time with the record types known from the start.
func VerifyFunc(w *World, key string, opts VerifyOpts) (res *FuncResult) {
	res = verifyFuncOnce(w, key, opts)
	if len(res.recTypes) > 0 && opts.recSeed == nil {
		opts.recSeed = res.recTypes
		res = verifyFuncOnce(w, key, opts)
	}
	return res
}

func verifyFuncOnce(w *World, key string, opts VerifyOpts) (res *FuncResult) {
	res = &FuncResult{Key: key}
	t0 := time.Now()
	defer func() {
		res.GenSecs = time.Since(t0).Seconds()
		if r := recover(); r != nil {
			if ee, ok := r.(evalError); ok {
				res.Err = ee.msg
				return
			}
			res.Err = fmt.Sprintf("engine: %v\n%s", r, trimStack(debug.Stack()))
		}
	}()
	fn := w.Funcs[key]
	if fn == nil {
		res.Err = "function not found in the current tree: " + key
		return
	}
	if len(fn.Blocks) == 0 {
		res.Err = "function has no body: " + key
		return
	}
	ct := w.Contracts[key]
	if ct == nil {
		ct = &FnContract{Key: key, Loops: map[int]*LoopContract{}, Options: map[string]string{}}
	}
	res.Arith = ct.Arith
	res.File = ct.File
	c := NewCtx(w, ct.Arith == "int")
	res.Ctx = c
	x := &Exec{c: c, w: w, target: key, maxInl: opts.MaxInl, safety: opts.Safety, gens: map[string][]genParent{}, genMemo: map[string]string{}, released: map[string]bool{}}
	if opts.recSeed != nil {
		x.recTypes = map[string]types.Type{}
		for k, v := range opts.recSeed {
			x.recTypes[k] = v
		}
	}
	defer func() { res.recTypes = x.recTypes }()
	if x.maxInl == 0 {
		x.maxInl = 4
	}
	if r := outOfSubset(fn); r != "" {
		if r == "reflect" && hasOpt(ct, "abstract-reflect") {
			// checked in abstracted form: calls into package reflect yield arbitrary results and are assumed not to
			// touch what the contract talks about; the function is listed as abstracted, not as verified code
			c.Notes = append(c.Notes, key+": verified in ABSTRACTED form (calls into package reflect havoc their results)")
		} else {
			res.Err = "function uses " + r + " (outside the subset)"
			return
		}
	}
	x.stack = []string{key}
	fr := x.newFrame(fn, 0, true)
	fr.ct = ct
	x.topFrame = fr
	st0 := &State{Reach: "true", Comp: map[string]string{}}
	for _, p := range fn.Params {
		n := c.declConst("p_"+mangle(p.Name()), c.sortOf(p.Type()))
		fr.env[p] = n
		x.assumeAllocatedDeep(st0, p.Type(), n)
		x.assumeIntRange(p.Type(), n)
	}
	for _, p := range fn.Params {
		x.topReqs = append(x.topReqs, x.entryReqs(st0, p, fr.env[p])...)
	}
	for _, f := range fn.FreeVars {
		n := c.declConst("fv_"+mangle(f.Name()), c.sortOf(f.Type()))
		fr.fv = append(fr.fv, n)
		x.assumeAllocatedDeep(st0, f.Type(), n)
		c.assume(not(eq(n, "nil")))
		// a captured variable is a variable of the enclosing function: an object of its own (never a field or element
		// of another object), distinct from the other captured variables
		c.assume(eq(sx("path", n), "proot"))
		for _, o := range fr.fv[:len(fr.fv)-1] {
			c.assume(not(eq(sx("ref", n), sx("ref", o))))
		}
		if pt, ok := f.Type().Underlying().(*types.Pointer); ok && immutableFreeVar(fn, len(fr.fv)-1) {
			v := c.define("fvval_"+mangle(f.Name()), c.sortOf(pt.Elem()), x.load(st0, pt.Elem(), n))
			x.immut = append(x.immut, immutCell{loc: n, val: v, ty: pt.Elem()})
		}
	}
	if fn.Synthetic == "package initializer" && fn.Pkg != nil {
		// the package initializer runs once: its guard is false on entry
		if g, ok := fn.Pkg.Members["init$guard"].(*ssa.Global); ok {
			c.assume(not(x.load(st0, types.Typ[types.Bool], fr.val(g))))
		}
	}
	// requires
	fr.entry = st0.clone()
	sc0 := fr.scope(st0, st0)
	var reqs []string
	for _, cl := range ct.Requires {
		g, ok := fr.tryEvalClause(sc0, cl)
		if !ok {
			// a precondition that no longer evaluates against the code (it names something a refactoring
			// removed) is dropped: assuming less is sound
			c.Notes = append(c.Notes, fmt.Sprintf("%s: precondition %q no longer evaluates against the code; dropped (nothing assumed)", key, cl.Text))
			continue
		}
		reqs = append(reqs, g)
		c.assume(g)
	}
	if len(reqs) > 0 {
		o := c.oblige(key+"#vacuity:requires", "vacuity", key, "requires are satisfiable", fr.pos(fn.Pos()), "true", "false", nil)
		o.Goal = "false" // expect SAT of hypotheses
	}
	ret := fr.run(st0)
	if ret == nil {
		c.Notes = append(c.Notes, key+": no return is reachable")
		return
	}
	// a call-site clause that matched no call, go statement, select send or close in the current code checks nothing:
	// the effect it constrains is gone (or was renamed beyond recognition). Reported, not silently dropped.
	for _, cs := range ct.Calls {
		if x.csMatched[cs.Clause] {
			continue
		}
		nm := cs.Clause.Name
		if nm == "" {
			nm = mangle(cs.Callee)
		}
		c.oblige(fmt.Sprintf("%s#call:%s", key, nm), "call", key, "callsite "+cs.Callee+" "+cs.Clause.Text+"   [matches no call site in the current code]", fr.pos(fn.Pos()), "true", "false", nil)
	}
	// some return must be reachable under everything assumed on the way (contracts of callees, invariants, axioms): a
	// contradiction among them would make every obligation below hold vacuously
	{
		o := c.oblige(key+"#vacuity:return-reachable", "vacuity", key, "assumptions made on the way to a return are satisfiable", fr.pos(fn.Pos()), ret.st.Reach, "false", nil)
		o.Goal = "false"
	}
	// ensures
	post := fr.scope(ret.st, fr.entry)
	post.paramsAtEntry = true // in a postcondition a parameter's name denotes the argument the caller passed
	bindResults(post.vars, fn.Signature, ret.results)
	for i, cl := range ct.Ensures {
		nm := cl.Name
		if nm == "" {
			nm = fmt.Sprint(i + 1)
		}
		g := fr.evalClause(post, cl)
		c.oblige(fmt.Sprintf("%s#post:%s", key, nm), "post", key, "ensures "+cl.Text, fr.pos(fn.Pos()), ret.st.Reach, g, x.topReqs)
	}
	// frame
	if ct.HasSpec && !ct.ModAll && len(ct.ModTypes) == 0 {
		x.frameObligations(fr, ct, ret.st)
	}
	// lock balance
	for i, mu := range x.mutexTerms {
		_ = i
		// the mutex of an object this function allocated did not exist on entry: it counts as free then
		var own []string
		for _, f := range x.freshMutexes {
			own = append(own, eq(mu, f))
		}
		was := sx("select", x.get(fr.entry, "lock"), mu)
		if len(own) > 0 {
			// (the allocation may lie on another path than this return: only a location at or above the entry
			// allocation counter is one of this call's own objects)
			was = ite(and(or(own...), sx(">=", sx("ref", mu), x.get(fr.entry, "alloc"))), "0", was)
		}
		now := sx("select", x.get(ret.st, "lock"), mu)
		// balanced: the state it had on entry -- or free, for the mutex of an object that did not exist on entry
		// (allocated by this function or by a callee)
		g := or(eq(now, was), and(sx(">=", sx("ref", mu), x.get(fr.entry, "alloc")), eq(now, "0")))
		if hasOpt(ct, "lock-unbalanced") {
			break
		}
		c.oblige(fmt.Sprintf("%s#lock:balanced", key), "lock", key, "every lock acquired is released on every path", fr.pos(fn.Pos()), ret.st.Reach, g, nil)
	}
	return
}

func (fr *Frame) tryEvalClause(sc *Scope, cl *Clause) (t string, ok bool) {
	defer func() {
		if r := recover(); r != nil {
			if _, isEval := r.(evalError); isEval {
				ok = false
				return
			}
			panic(r)
		}
	}()
	return fr.evalClause(sc, cl), true
}

func trimStack(b []byte) string {
	s := string(b)
	lines := strings.Split(s, "\n")
	if len(lines) > 30 {
		lines = lines[:30]
	}
	return strings.Join(lines, "\n")
}

// frame: every pre-existing location outside the modifies set keeps its value
func (x *Exec) frameObligations(fr *Frame, ct *FnContract, fin *State) {
	entry := fr.entry
	x.frameCheck(fr, ct.Modifies, fr.scope(entry, entry), entry, fin, "alloc_0", x.target+"#frame", "modifies clause")
}

// ---- lemma checking -------------------------------------------------------------------------------

func VerifyLemma(w *World, lm *Lemma, pkgName string) (res *FuncResult) {
	res = &FuncResult{Key: "lemma:" + lm.Name}
	t0 := time.Now()
	defer func() {
		res.GenSecs = time.Since(t0).Seconds()
		if r := recover(); r != nil {
			if ee, ok := r.(evalError); ok {
				res.Err = ee.msg
				return
			}
			res.Err = fmt.Sprintf("engine: %v\n%s", r, trimStack(debug.Stack()))
		}
	}()
	c := NewCtx(w, lm.Arith == "int")
	res.Ctx = c
	x := &Exec{c: c, w: w, target: "lemma:" + lm.Name, gens: map[string][]genParent{}, genMemo: map[string]string{}, released: map[string]bool{}}
	st := &State{Reach: "true", Comp: map[string]string{}}
	sc := &Scope{x: x, vars: map[string]Val{}, st: st, old: st, pkg: w.PkgByName(nil, pkgName)}
	g := sc.evalBool(lm.Clause.E)
	c.oblige("lemma:"+lm.Name, "lemma", "lemma", lm.Clause.Text, token.Position{Filename: lm.File, Line: lm.Clause.Line}, "true", g, nil)
	return
}

// ---- running obligations ---------------------------------------------------------------------------

type RunOpts struct {
	TimeoutS int
	Seed     int
	All      bool // run all solvers to completion and compare
	Retry    bool
	Par      int
	Only     *regexp.Regexp
	Skip     func(name string) bool
	KeepDir  string
}

func RunObligations(results []*FuncResult, o RunOpts) {
	if o.TimeoutS == 0 {
		o.TimeoutS = 10
	}
	if o.Par == 0 {
		o.Par = 8
	}
	type job struct {
		c  *Ctx
		ob *Obligation
	}
	var jobs []job
	for _, r := range results {
		if r.Ctx == nil {
			continue
		}
		for _, ob := range r.Ctx.Obls {
			if o.Only != nil && !o.Only.MatchString(ob.Name) {
				continue
			}
			if o.Skip != nil && o.Skip(ob.Name) {
				ob.Result, ob.By = "not-run", "unclaimed"
				continue
			}
			jobs = append(jobs, job{r.Ctx, ob})
		}
	}
	var wg sync.WaitGroup
	ch := make(chan job)
	for i := 0; i < o.Par; i++ {
		wg.Add(1)
		go func() {
			defer wg.Done()
			for j := range ch {
				runObligation(j.c, j.ob, o)
			}
		}()
	}
	for _, j := range jobs {
		ch <- j
	}
	close(ch)
	wg.Wait()
}

var fileSeq int
var fileMu sync.Mutex

func runObligation(c *Ctx, ob *Obligation, o RunOpts) {
	fileMu.Lock()
	fileSeq++
	n := fileSeq
	fileMu.Unlock()
	q := c.Query(ob)
	name := fmt.Sprintf("q%04d_%s.smt2", n, trunc(mangle(ob.Name), 80))
	ob.File = writeScratch(name, q)
	if qq, ok := quantifiedVariant(q); ok {
		writeScratch(name+".cvc5", qq)
	}
	if ob.Kind == "vacuity" {
		// expect sat (or at least not unsat)
		r := runOne("z3-new", ob.File, o.TimeoutS, o.Seed)
		ob.Runs = []SolverRun{r}
		ob.Seconds = r.Seconds
		ob.By = r.Solver
		if r.Result == "unsat" {
			ob.Result = "vacuous"
		} else {
			ob.Result = "unsat" // counted as discharged: hypotheses are not contradictory (or undecided within limit)
			if r.Result != "sat" {
				ob.By = r.Solver + "(" + r.Result + ")"
			}
		}
		return
	}
	ob.Runs = Discharge(ob.File, o.TimeoutS, o.Seed, o.Retry, o.All)
	ob.Result, ob.By, ob.Seconds = Verdict(ob.Runs)
	if o.All {
		// disagreement check
		hasSat, hasUnsat := false, false
		for _, r := range ob.Runs {
			if r.Result == "sat" {
				hasSat = true
			}
			if r.Result == "unsat" {
				hasUnsat = true
			}
		}
		if hasSat && hasUnsat {
			ob.Result = "disagree"
		}
	}
	if ob.Result == "unknown" && strings.Contains(q, "(assert (forall") {
		// Quantified hypotheses make the solvers answer "unknown" instead of "sat". For a candidate
		// counterexample only, the query is re-run without them; the model is then replayed on the real code,
		// which is what decides whether it is reported as a failing input.
		var b strings.Builder
		for _, ln := range strings.Split(q, "\n") {
			if !strings.HasPrefix(ln, "(assert (forall") {
				b.WriteString(ln)
				b.WriteString("\n")
			}
		}
		rf := writeScratch(name+".relaxed.smt2", b.String())
		for _, s := range []string{"z3", "z3-new"} {
			r := runOne(s, rf, o.TimeoutS, o.Seed)
			if r.Result == "sat" {
				r.Solver = s + " (quantified hypotheses dropped: candidate model only)"
				ob.Runs = append(ob.Runs, r)
				ob.Result, ob.By = "sat", r.Solver
				break
			}
		}
	}
	if ob.Result == "sat" {
		for _, r := range ob.Runs {
			if r.Result == "sat" {
				ob.Model = parseValues(r.Output, ob.Values)
				break
			}
		}
	}
	if o.KeepDir != "" && ob.Result != "unsat" {
		os.MkdirAll(o.KeepDir, 0o755)
		os.WriteFile(filepath.Join(o.KeepDir, filepath.Base(ob.File)), []byte(q), 0o644)
	}
}

// parse "(get-value (t))" answers: one s-expression "((t v))" per request, in order
func parseValues(out string, reqs []ModelReq) map[string]string {
	m := map[string]string{}
	i := strings.Index(out, "\n")
	if i < 0 {
		return m
	}
	rest := out[i+1:]
	items := splitTop(rest)
	for k, it := range items {
		if k >= len(reqs) {
			break
		}
		// it = ((term value))
		inner := strings.TrimSpace(it)
		if len(inner) < 4 || !strings.HasPrefix(inner, "((") {
			continue
		}
		inner = inner[1 : len(inner)-1]
		parts := splitTop(strings.TrimSpace(inner)[1 : len(strings.TrimSpace(inner))-1])
		if len(parts) >= 2 {
			m[reqs[k].Label] = strings.Join(parts[1:], " ")
		}
	}
	return m
}
