package govc

import (
	"fmt"
	"go/ast"
	"go/token"
	"go/types"
	"strings"

	"golang.org/x/tools/go/ssa"
)

// ---- ghost counters, locks ---------------------------------------------------------------------

func (x *Exec) bump(st *State, name string) {
	key := "cnt:" + name
	if x.cntKeys == nil {
		x.cntKeys = map[string]bool{}
	}
	x.cntKeys[key] = true
	x.set(st, key, sx("+", x.get(st, key), "1"))
}

var mutexes = map[string]bool{}

func lockMethod(key string) (op string, ok bool) {
	// (*sync.Mutex).Lock, (*sync.RWMutex).RLock, (*github.com/anacrolix/sync.RWMutex).Lock ...
	if !strings.HasPrefix(key, "(*") {
		return "", false
	}
	i := strings.LastIndex(key, ").")
	if i < 0 {
		return "", false
	}
	recv, m := key[2:i], key[i+2:]
	if !(strings.HasSuffix(recv, "sync.Mutex") || strings.HasSuffix(recv, "sync.RWMutex")) {
		return "", false
	}
	switch m {
	case "Lock", "Unlock", "RLock", "RUnlock":
		return m, true
	}
	return "", false
}

func (fr *Frame) lockOp(st *State, op string, mu string, pos token.Pos) {
	x := fr.x
	x.noteMutex(mu)
	cur := sx("select", x.get(st, "lock"), mu)
	switch op {
	case "Lock":
		fr.lockObl(st, "lock:acquire-free", pos, eq(cur, "0"))
		x.set(st, "lock", sx("store", x.get(st, "lock"), mu, "1"))
		fr.relock(st, mu)
		fr.lockInvs(st, mu, pos, false)
	case "RLock":
		fr.lockObl(st, "lock:acquire-free", pos, eq(cur, "0"))
		x.set(st, "lock", sx("store", x.get(st, "lock"), mu, "2"))
		fr.relock(st, mu)
	case "Unlock":
		fr.lockObl(st, "lock:release-held", pos, eq(cur, "1"))
		fr.lockInvs(st, mu, pos, true)
		x.set(st, "lock", sx("store", x.get(st, "lock"), mu, "0"))
	case "RUnlock":
		fr.lockObl(st, "lock:release-held", pos, eq(cur, "2"))
		x.set(st, "lock", sx("store", x.get(st, "lock"), mu, "0"))
	}
}

// lockinv clauses of the function under verification: assumed on acquiring the named mutex, obligations on releasing it
func (fr *Frame) lockInvs(st *State, mu string, pos token.Pos, release bool) {
	x := fr.x
	top := x.topFrame
	if top == nil || top.ct == nil || len(top.ct.LockInvs) == 0 {
		return
	}
	for i, li := range top.ct.LockInvs {
		sc := top.scope(st, top.entry)
		sc.localFrame = fr
		sc.at = top.curSite
		nm := li.Clause.Name
		if nm == "" {
			nm = fmt.Sprint(i + 1)
		}
		oname := fmt.Sprintf("%s#lock:inv-at-release:%s", x.target, nm)
		var g string
		ok := func() (ok bool) {
			defer func() {
				if r := recover(); r != nil {
					if _, isEval := r.(evalError); !isEval {
						panic(r)
					}
					ok = false
				}
			}()
			loc, _ := sc.lvalue(li.Mu)
			gv := sc.eval(li.Clause.E)
			g = implies(eq(loc, mu), gv.T)
			return true
		}()
		if li.AssumeOnly {
			if !release && ok {
				x.c.AssumedUse["lockowns "+top.ct.Key+": "+li.Clause.Text]++
				x.c.assume(implies(st.Reach, g))
			}
			continue
		}
		if !ok {
			if release {
				x.c.oblige(oname, "lock", x.target, "lockinv "+li.Clause.Text+"   [does not evaluate against the current code]", fr.pos(pos), st.Reach, "false", nil)
			}
			continue
		}
		if release {
			x.c.oblige(oname, "lock", x.target, "lockinv "+li.Clause.Text, fr.pos(pos), st.Reach, g, x.topReqs)
		} else {
			x.c.assume(implies(st.Reach, g))
		}
	}
}

func (fr *Frame) lockObl(st *State, what string, pos token.Pos, goal string) {
	x := fr.x
	if !x.safety {
		return
	}
	name := fmt.Sprintf("%s#%s", x.target, what)
	if !fr.top {
		name = fmt.Sprintf("%s#%s:%s", x.target, what, fr.prefix)
	}
	x.c.oblige(name, "lock", x.target, what, fr.pos(pos), st.Reach, goal, nil)
	x.c.assume(implies(st.Reach, goal))
}

func (x *Exec) noteMutex(mu string) {
	for _, m := range x.mutexTerms {
		if m == mu {
			return
		}
	}
	x.mutexTerms = append(x.mutexTerms, mu)
}

// a blocking operation: no lock known to this function may be held
func (fr *Frame) blocking(st *State, what string, pos token.Pos) {
	x := fr.x
	if len(x.mutexTerms) == 0 {
		return
	}
	var gs []string
	for _, m := range x.mutexTerms {
		gs = append(gs, eq(sx("select", x.get(st, "lock"), m), "0"))
	}
	fr.lockObl(st, "lock:no-blocking-"+what, pos, and(gs...))
}

// After re-acquiring a lock that this function released earlier, state protected by it may have
// been changed by other goroutines (M1): everything reachable is havoced except fresh objects.
func (fr *Frame) relock(st *State, mu string) {
	x := fr.x
	if !x.released[mu] {
		return
	}
	x.havocAllHeap(st)
	x.c.comment("relock of " + mu + ": protected state havoced (M1)")
}

// ---- maps ---------------------------------------------------------------------------------------

func (x *Exec) mapKeys(mt *types.Map) (ks, vs, mdKey, mvKey string) {
	ks, vs = x.c.sortOf(mt.Key()), x.c.sortOf(mt.Elem())
	return ks, vs, "MD:" + ks, "MV:" + ks + "|" + vs
}

func (x *Exec) mapInit(st *State, mt *types.Map, m string) {
	ks, vs, md, mv := x.mapKeys(mt)
	x.set(st, md, sx("store", x.get(st, md), m, fmt.Sprintf("((as const (Array %s Bool)) false)", ks)))
	_ = vs
	_ = mv
	x.set(st, "ML", sx("store", x.get(st, "ML"), m, x.c.idx(0)))
}

func (x *Exec) mapUpdate(st *State, mt *types.Map, m, k, v string) {
	_, _, md, mv := x.mapKeys(mt)
	dom := sx("select", x.get(st, md), m)
	had := sx("select", dom, k)
	ln := sx("select", x.get(st, "ML"), m)
	x.set(st, "ML", sx("store", x.get(st, "ML"), m, ite(had, ln, x.addIdx(ln, x.c.idx(1)))))
	x.set(st, md, sx("store", x.get(st, md), m, sx("store", dom, k, "true")))
	x.set(st, mv, sx("store", x.get(st, mv), m, sx("store", sx("select", x.get(st, mv), m), k, v)))
}

func (x *Exec) mapDelete(st *State, mt *types.Map, m, k string) {
	_, _, md, _ := x.mapKeys(mt)
	dom := sx("select", x.get(st, md), m)
	had := and(not(eq(m, "nil")), sx("select", dom, k))
	ln := sx("select", x.get(st, "ML"), m)
	x.set(st, "ML", sx("store", x.get(st, "ML"), m, ite(had, x.subIdx(ln, x.c.idx(1)), ln)))
	x.set(st, md, sx("store", x.get(st, md), m, sx("store", dom, k, "false")))
}

func (x *Exec) mapHas(st *State, mt *types.Map, m, k string) string {
	_, _, md, _ := x.mapKeys(mt)
	return and(not(eq(m, "nil")), sx("select", sx("select", x.get(st, md), m), k))
}

func (x *Exec) mapGet(st *State, mt *types.Map, m, k string) string {
	_, _, _, mv := x.mapKeys(mt)
	return ite(x.mapHas(st, mt, m, k), sx("select", sx("select", x.get(st, mv), m), k), x.c.zero(mt.Elem()))
}

func (x *Exec) mapLen(st *State, m string) string {
	ln := sx("select", x.get(st, "ML"), m)
	return ite(eq(m, "nil"), x.c.idx(0), ln)
}

// facts tying len to dom that the code relies on: len >= 0; a present key implies len >= 1
func (x *Exec) mapLenFacts(st *State, mt *types.Map, m string, k string) {
	ln := sx("select", x.get(st, "ML"), m)
	x.c.assume(implies(st.Reach, x.leIdx(x.c.idx(0), ln)))
	if k != "" {
		x.c.assume(implies(and(st.Reach, x.mapHas(st, mt, m, k)), x.leIdx(x.c.idx(1), ln)))
	}
}

func (fr *Frame) lookup(st *State, in *ssa.Lookup, def func(ssa.Value, string)) {
	x := fr.x
	c := x.c
	if mt, ok := in.X.Type().Underlying().(*types.Map); ok {
		m, k := fr.val(in.X), fr.val(in.Index)
		x.mapLenFacts(st, mt, m, k)
		v := c.define(in.Name(), c.sortOf(mt.Elem()), x.mapGet(st, mt, m, k))
		x.assumeAllocated(st, mt.Elem(), v)
		if in.CommaOk {
			fr.tup[in] = []string{v, c.define("ok", "Bool", x.mapHas(st, mt, m, k))}
		} else {
			fr.env[in] = v
		}
		return
	}
	// string index
	s := fr.val(in.X)
	i := fr.toIdx(in.Index)
	fr.safe(st, "index-bounds", in.Pos(), and(x.leIdx(c.idx(0), i), x.ltIdx(i, sx("s_len", s))))
	def(in, sx("s_at", s, i))
}

func (fr *Frame) next(st *State, in *ssa.Next) {
	x := fr.x
	c := x.c
	rng := in.Iter.(*ssa.Range)
	ok := c.freshConst("next_ok", "Bool")
	if in.IsString {
		fr.tup[in] = []string{ok, c.freshConst("next_i", c.sortOf(types.Typ[types.Int])), c.freshConst("next_r", c.sortOf(types.Typ[types.Int32]))}
		return
	}
	mt := rng.X.Type().Underlying().(*types.Map)
	m := fr.val(rng.X)
	k := c.freshConst("next_k", c.sortOf(mt.Key()))
	// a produced key is in the map now; an empty or nil map produces nothing
	c.assume(implies(and(st.Reach, ok), x.mapHas(st, mt, m, k)))
	x.mapLenFacts(st, mt, m, k)
	c.assume(implies(and(st.Reach, eq(x.mapLen(st, m), c.idx(0))), not(ok)))
	v := c.define("next_v", c.sortOf(mt.Elem()), x.mapGet(st, mt, m, k))
	x.assumeAllocated(st, mt.Key(), k)
	x.assumeAllocated(st, mt.Elem(), v)
	fr.tup[in] = []string{ok, k, v}
	// ghost element count: while the map's key set is the one the iteration started from, it produces each key once:
	// never more elements than the map has, and exactly that many when it ends
	ik := mapIterKey(rng)
	cnt := x.get(st, ik)
	_, _, md, _ := x.mapKeys(mt)
	same := eq(sx("select", x.get(st, md), m), fr.rangeDom[rng])
	ln := x.mapLen(st, m)
	c.assume(implies(and(st.Reach, same, ok), x.ltIdx(cnt, ln)))
	c.assume(implies(and(st.Reach, same, not(ok)), eq(cnt, ln)))
	x.set(st, ik, ite(ok, x.addIdx(cnt, c.idx(1)), cnt))
	// ghost set of the keys produced so far: a produced key is new; when the iteration ends every key still in the map
	// has been produced (Go's map iteration semantics; entries deleted meanwhile are simply not produced)
	vk := mapVisitedKey(rng, c.sortOf(mt.Key()))
	vis := x.get(st, vk)
	c.assume(implies(and(st.Reach, ok), not(sx("select", vis, k))))
	q := c.fresh("vk")
	c.assume(implies(and(st.Reach, not(ok)), fmt.Sprintf("(forall ((%s %s)) (! (=> %s (select %s %s)) :pattern ((select %s %s))))",
		q, c.sortOf(mt.Key()), and(not(eq(m, "nil")), sx("select", sx("select", x.get(st, md), m), q)), vis, q, vis, q)))
	x.set(st, vk, ite(ok, sx("store", vis, k, "true"), vis))
}

func (x *Exec) assumeAllocatedDeep(st *State, t types.Type, v string) {
	t = types.Unalias(t)
	if s, ok := t.Underlying().(*types.Struct); ok {
		for i := 0; i < s.NumFields(); i++ {
			x.assumeAllocatedDeep(st, s.Field(i).Type(), x.c.fieldOf(s, v, i))
		}
		return
	}
	x.assumeAllocated(st, t, v)
}

// ---- calls ----------------------------------------------------------------------------------------

func (fr *Frame) setResults(v ssa.Value, sig *types.Signature, res []string) {
	if v == nil {
		return
	}
	switch sig.Results().Len() {
	case 0:
	case 1:
		fr.env[v] = res[0]
	default:
		fr.tup[v] = res
	}
}

func (fr *Frame) havocResults(st *State, sig *types.Signature) []string {
	var res []string
	for i := 0; i < sig.Results().Len(); i++ {
		t := sig.Results().At(i).Type()
		r := fr.x.c.freshConst("res", fr.x.c.sortOf(t))
		fr.x.assumeAllocatedDeep(st, t, r)
		fr.x.typeSeparation(t, r)
		res = append(res, r)
	}
	return res
}

func (fr *Frame) call(st *State, v ssa.Value, cc *ssa.CallCommon, site ssa.Instruction) {
	x := fr.x
	c := x.c
	sig := cc.Signature()
	var args []string
	var argTypes []types.Type
	if cc.IsInvoke() {
		args = append(args, fr.val(cc.Value))
		argTypes = append(argTypes, cc.Value.Type())
	}
	for _, a := range cc.Args {
		args = append(args, fr.val(a))
		argTypes = append(argTypes, a.Type())
	}
	pos := site.Pos()
	fr.curSite = site

	if b, ok := cc.Value.(*ssa.Builtin); ok && !cc.IsInvoke() {
		fr.builtin(st, v, b, cc, args, pos)
		return
	}

	// callee resolution
	var callee *ssa.Function
	var bindings []string
	key := ""
	if cc.IsInvoke() {
		key = ShortName(fmt.Sprintf("(%s).%s", cc.Value.Type().String(), cc.Method.Name()))
	} else if f := cc.StaticCallee(); f != nil {
		callee = f
		if mc, ok := cc.Value.(*ssa.MakeClosure); ok {
			for _, b := range mc.Bindings {
				bindings = append(bindings, fr.val(b))
			}
		}
		key = FuncKey(f)
	}
	fr.callsiteSpecs(st, key, callee, args, cc, false, pos)
	if key != "" {
		x.bump(st, "call:"+key)
	}

	if callee != nil {
		if op, ok := lockMethod(key); ok {
			fr.safe(st, "nil-deref", pos, not(eq(args[0], "nil")))
			fr.lockOp(st, op, args[0], pos)
			return
		}
		if fr.special(st, v, key, callee, args, argTypes, pos) {
			return
		}
		ct := x.w.Contracts[key]
		if ct != nil && ct.HasSpec && !ct.Inline {
			x.curCallArgs, x.curCallFrame = cc.Args, fr
			x.curFree = fr.freeBindings(callee, cc)
			res := fr.applyContract(st, ct, callee, nil, args, pos)
			x.curCallArgs, x.curCallFrame, x.curFree = nil, nil, nil
			fr.setResults(v, sig, res)
			return
		}
		if x.canInline(fr, callee) {
			res := fr.inline(st, callee, args, bindings)
			fr.setResults(v, sig, res)
			return
		}
		c.Unmodelled[key]++
		fr.setResults(v, sig, fr.havocResults(st, sig))
		return
	}
	if cc.IsInvoke() {
		ct := x.w.Contracts[key]
		if ct != nil {
			res := fr.applyContract(st, ct, nil, cc, args, pos)
			fr.setResults(v, sig, res)
			return
		}
		fr.safe(st, "nil-iface-call", pos, not(eq(sx("itag", args[0]), "0")))
		c.Unmodelled[key]++
		fr.setResults(v, sig, fr.havocResults(st, sig))
		return
	}
	// dynamic call through a function value
	fnv := fr.val(cc.Value)
	fr.safe(st, "nil-func-call", pos, not(eq(fnv, "nil_fn")))
	dk := "dynamic:" + fr.describeValue(cc.Value)
	fr.callsiteSpecs(st, dk, nil, args, cc, false, pos)
	x.bump(st, "call:"+dk)
	if ct := x.w.Contracts[fr.key+"@"+fr.describeValue(cc.Value)]; ct != nil {
		res := fr.applyContract(st, ct, nil, cc, args, pos)
		fr.setResults(v, sig, res)
		return
	}
	c.Unmodelled[dk]++
	fr.setResults(v, sig, fr.havocResults(st, sig))
}

// a readable name for a dynamically called function value: field or parameter name
func (fr *Frame) describeValue(v ssa.Value) string {
	switch v := v.(type) {
	case *ssa.Parameter:
		return v.Name()
	case *ssa.FreeVar:
		return v.Name()
	case *ssa.UnOp:
		if fa, ok := v.X.(*ssa.FieldAddr); ok {
			st := fa.X.Type().Underlying().(*types.Pointer).Elem().Underlying().(*types.Struct)
			return st.Field(fa.Field).Name()
		}
		return fr.describeValue(v.X)
	case *ssa.Field:
		st := v.X.Type().Underlying().(*types.Struct)
		return st.Field(v.Field).Name()
	case *ssa.Extract:
		// the source-level name of the variable the component was assigned to, if any
		for _, b := range fr.fn.Blocks {
			for _, in := range b.Instrs {
				if d, ok := in.(*ssa.DebugRef); ok && d.X == v && !d.IsAddr {
					if id, ok := d.Expr.(*ast.Ident); ok {
						return id.Name
					}
				}
			}
		}
		return "extract"
	case *ssa.Phi:
		return v.Comment
	}
	return v.Name()
}

func (x *Exec) canInline(fr *Frame, f *ssa.Function) bool {
	if len(f.Blocks) == 0 {
		return false
	}
	if fr.depth >= x.maxInl {
		return false
	}
	key := FuncKey(f)
	for _, s := range x.stack {
		if s == key {
			return false
		}
	}
	if ct := x.w.Contracts[key]; ct != nil && ct.Inline {
		return true
	}
	if !x.w.InModule(f) && !inlineDeps[pkgOf(f)] {
		return false
	}
	if outOfSubset(f) != "" {
		return false
	}
	return true
}

var inlineDeps = map[string]bool{"github.com/anacrolix/multiless": true, "github.com/anacrolix/generics": true}

func pkgOf(f *ssa.Function) string {
	if f.Origin() != nil {
		f = f.Origin()
	}
	for f.Parent() != nil {
		f = f.Parent()
	}
	if f.Pkg != nil {
		return f.Pkg.Pkg.Path()
	}
	if f.Object() != nil && f.Object().Pkg() != nil {
		return f.Object().Pkg().Path()
	}
	return ""
}

// reasons a function body cannot be executed by the engine
func outOfSubset(f *ssa.Function) string {
	for _, b := range f.Blocks {
		for _, in := range b.Instrs {
			switch in := in.(type) {
			case *ssa.Call:
				if b, ok := in.Call.Value.(*ssa.Builtin); ok && b.Name() == "recover" {
					// supported only in the shape "a deferred function literal calls recover()": the literal itself is
					// executed as part of its parent (defersRecover); verified on its own it has no meaning
					if f.Parent() == nil {
						return "recover"
					}
				}
				if sc := in.Call.StaticCallee(); sc != nil && sc.Pkg != nil && sc.Pkg.Pkg.Path() == "reflect" {
					return "reflect"
				}
			}
		}
	}
	if strings.Contains(f.Name(), "jump$") {
		return "range-over-func"
	}
	for _, a := range f.AnonFuncs {
		if a.Synthetic != "" && strings.Contains(a.Synthetic, "range-over-func") {
			return "range-over-func"
		}
		// a function literal that recovers from panics changes what a panic in the enclosing code means
		if r := outOfSubset(a); r == "recover" {
			return "recover"
		}
	}
	return ""
}

func (fr *Frame) inline(st *State, callee *ssa.Function, args, bindings []string) []string {
	x := fr.x
	key := FuncKey(callee)
	x.c.Inlined[key]++
	x.c.comment("inline " + key)
	x.stack = append(x.stack, key)
	defer func() { x.stack = x.stack[:len(x.stack)-1] }()
	fr2 := x.newFrame(callee, fr.depth+1, false)
	if fr.top {
		fr2.prefix = key
	} else {
		fr2.prefix = fr.prefix + ">" + key
	}
	fr2.fv = bindings
	fr2.parent = fr
	for i, p := range callee.Params {
		if i < len(args) {
			fr2.env[p] = args[i]
		}
	}
	in := st.clone()
	ret := fr2.run(in)
	if ret == nil {
		st.Reach = "false"
		var res []string
		for i := 0; i < callee.Signature.Results().Len(); i++ {
			res = append(res, x.c.freshConst("noret", x.c.sortOf(callee.Signature.Results().At(i).Type())))
		}
		return res
	}
	st.Reach, st.Gen, st.Comp = ret.st.Reach, ret.st.Gen, ret.st.Comp
	x.c.comment("end inline " + key)
	return ret.results
}

// applyContract: assert requires, havoc modifies, assume ensures
func (fr *Frame) applyContract(st *State, ct *FnContract, callee *ssa.Function, cc *ssa.CallCommon, args []string, pos token.Pos) []string {
	x := fr.x
	c := x.c
	var sig *types.Signature
	var pkg *types.Package
	names := map[string]Val{}
	if callee != nil {
		sig = callee.Signature
		if callee.Pkg != nil {
			pkg = callee.Pkg.Pkg
		} else if callee.Object() != nil {
			pkg = callee.Object().Pkg()
		}
		if len(callee.Params) > 0 {
			for i, p := range callee.Params {
				if i < len(args) {
					names[p.Name()] = Val{T: args[i], Ty: p.Type()}
				}
			}
		} else {
			bindSigNames(names, sig, args)
		}
		// the receiver of a method may always be called self (contracts of library methods do not depend on its name)
		if sig.Recv() != nil && len(args) > 0 {
			if _, dup := names["self"]; !dup {
				names["self"] = Val{T: args[0], Ty: sig.Recv().Type()}
			}
		}
		// free variables of a closure callee are named in its contract like locals
		for k, v := range x.curFree {
			if _, dup := names[k]; !dup {
				names[k] = v
			}
		}
	} else {
		sig = cc.Signature()
		if cc.IsInvoke() {
			names["self"] = Val{T: args[0], Ty: cc.Value.Type()}
			bindSigNames(names, sig, args[1:])
			if n, ok := cc.Value.Type().(*types.Named); ok {
				pkg = n.Obj().Pkg()
			}
		} else {
			bindSigNames(names, sig, args)
			pkg = fr.fn.Package().Pkg
			// the function value being called, for contracts that name the callback's behaviour by an uninterpreted function
			names["callee"] = Val{T: fr.val(cc.Value), K: "raw:Fn"}
		}
	}
	if ct.Trusted {
		c.AssumedUse[ct.Key]++
	}
	pre := st.clone()
	sc := &Scope{x: x, vars: names, st: pre, old: pre, pkg: pkg}
	for i, cl := range ct.Requires {
		gv, ok := sc.tryEval(cl.E)
		if !ok {
			c.Notes = append(c.Notes, fmt.Sprintf("%s: precondition %q of callee %s no longer evaluates; dropped at the call site (the callee is verified without it)", x.target, cl.Text, ct.Key))
			continue
		}
		g := gv.T
		nm := cl.Name
		if nm == "" {
			nm = fmt.Sprint(i + 1)
		}
		oname := fmt.Sprintf("%s#pre@%s:%s", x.target, ct.Key, nm)
		c.oblige(oname, "pre", x.target, "requires "+cl.Text, fr.pos(pos), st.Reach, g, x.topReqs)
		c.assume(implies(st.Reach, g))
	}
	// modifies
	if len(ct.ModTypes) > 0 {
		x.typedHavoc(st, pre, ct, func(n string) string {
			t, _ := sc.typeByName(n)
			if t == nil {
				return n
			}
			return ownerName(t)
		})
	} else if ct.ModAll {
		x.havocAllHeap(st)
	} else {
		for _, m := range ct.Modifies {
			sc.st = pre
			x.havocRegion(st, sc, m.E)
		}
	}
	// callee may allocate
	if !ct.pureNoAlloc() {
		na := c.freshConst("alloc", "Int")
		c.assume(implies(st.Reach, sx(">=", na, x.get(st, "alloc"))))
		st.Comp["alloc"] = na
	}
	res := fr.havocResults(st, sig)
	post := &Scope{x: x, vars: map[string]Val{}, st: st, old: pre, pkg: pkg}
	for k, v := range names {
		post.vars[k] = v
	}
	bindResults(post.vars, sig, res)
	// ghost updates declared by the contract (keys may name results; right-hand sides read the pre-state)
	fr.applyGhost(st, ct, &Scope{x: x, vars: post.vars, st: pre, old: pre, pkg: pkg})
	for ri, opt := range []string{"records", "records1"} {
		name, ok := ct.Options[opt]
		if !ok || len(res) <= ri {
			continue
		}
		// result ri is remembered under a name: recorded("name") in later clauses of the caller
		rt := sig.Results().At(ri).Type()
		if x.recTypes == nil {
			x.recTypes = map[string]types.Type{}
		}
		x.recTypes[name] = rt
		st.Comp["g:rec:"+name+"|"+c.sortOf(rt)] = res[ri]
	}
	if hasOpt(ct, "now") && len(res) == 1 {
		// the result is a reading of the clock: lastnow() refers to it
		st.Comp["g:lastnow|"+c.sortOf(sig.Results().At(0).Type())] = res[0]
	}
	for _, cl := range ct.Ensures {
		if aboutCalleeEvents(cl.E, ct) {
			// counters, recorded values and select outcomes in a postcondition are the callee's own events, counted from
			// its entry: in the caller the same names denote the caller's events. Such a clause tells the caller nothing.
			continue
		}
		gv, ok := post.tryEval(cl.E)
		if !ok || !(gv.K == "bool" || (gv.Ty != nil && isBool(gv.Ty))) {
			// a postcondition phrased over values only the callee records: not available to this caller (assuming less is sound)
			continue
		}
		c.assume(implies(st.Reach, gv.T))
	}
	return res
}

func (ct *FnContract) pureNoAlloc() bool {
	_, ok := ct.Options["noalloc"]
	return ok
}

func bindSigNames(names map[string]Val, sig *types.Signature, args []string) {
	off := 0
	if sig.Recv() != nil && len(args) == sig.Params().Len()+1 {
		n := sig.Recv().Name()
		if n == "" || n == "_" {
			n = "self"
		}
		names[n] = Val{T: args[0], Ty: sig.Recv().Type()}
		names["self"] = names[n]
		off = 1
	}
	for i := 0; i < sig.Params().Len() && i+off < len(args); i++ {
		p := sig.Params().At(i)
		names[fmt.Sprintf("arg%d", i)] = Val{T: args[i+off], Ty: p.Type()}
		if p.Name() != "" && p.Name() != "_" {
			names[p.Name()] = Val{T: args[i+off], Ty: p.Type()}
		}
	}
}

func bindResults(names map[string]Val, sig *types.Signature, res []string) {
	for i := 0; i < sig.Results().Len(); i++ {
		r := sig.Results().At(i)
		v := Val{T: res[i], Ty: r.Type()}
		names[fmt.Sprintf("result%d", i)] = v
		if i == 0 {
			names["result"] = v
		}
		if r.Name() != "" && r.Name() != "_" {
			names[r.Name()] = v
		}
	}
}

// callsite clauses of the function under verification that name this callee
func (fr *Frame) callsiteSpecs(st *State, key string, callee *ssa.Function, args []string, cc *ssa.CallCommon, isGo bool, pos token.Pos) {
	x := fr.x
	top := x.topFrame
	if top != nil && top.ct != nil && key != "" && fr == top && !isGo {
		x.bindAliases(fr, top.ct, key, callee, cc)
	}
	if top == nil || top.ct == nil || len(top.ct.Calls) == 0 || key == "" {
		return
	}
	for _, cs := range top.ct.Calls {
		pat := cs.Callee
		if isGo {
			if !strings.HasPrefix(pat, "go:") {
				continue
			}
			pat = pat[3:]
		} else if strings.HasPrefix(pat, "go:") {
			continue
		}
		if !(pat == key || strings.HasSuffix(key, pat) && (strings.HasPrefix(pat, ".") || strings.HasPrefix(pat, ")"))) {
			continue
		}
		x.noteMatched(cs.Clause)
		sc := top.scope(st, top.entry)
		sc.vars = map[string]Val{}
		if callee != nil && len(callee.Params) > 0 {
			for i, p := range callee.Params {
				if i < len(args) {
					sc.vars["$"+p.Name()] = Val{T: args[i], Ty: p.Type()}
					sc.vars[fmt.Sprintf("$%d", i)] = Val{T: args[i], Ty: p.Type()}
				}
			}
		} else {
			tmp := map[string]Val{}
			if cc.IsInvoke() {
				tmp["self"] = Val{T: args[0], Ty: cc.Value.Type()}
				bindSigNames(tmp, cc.Signature(), args[1:])
			} else {
				bindSigNames(tmp, cc.Signature(), args)
			}
			for k, v := range tmp {
				sc.vars["$"+strings.TrimPrefix(k, "arg")] = v
			}
		}
		// free variables of a closure callee: $fv:name
		if callee != nil {
			if mc, ok := cc.Value.(*ssa.MakeClosure); ok {
				for i, b := range mc.Bindings {
					fv := callee.FreeVars[i]
					sc.vars["$"+fv.Name()] = Val{T: fr.val(b), Ty: b.Type(), ptrToVar: true}
					sc.vars[fmt.Sprintf("$fv%d", i)] = Val{T: fr.val(b), Ty: b.Type(), ptrToVar: true}
				}
			}
		}
		sc.localFrame = fr
		// the program point in the function under verification: its own instruction, or its call that led here
		sc.at = top.curSite
		nm := cs.Clause.Name
		if nm == "" {
			nm = mangle(pat)
		}
		gv, evalOK := sc.tryEval(cs.Clause.E)
		if !evalOK || !(gv.K == "bool" || (gv.Ty != nil && isBool(gv.Ty))) {
			// the clause names something the code does not have (e.g. a lock that does not exist): the
			// obligation cannot hold; it is reported as failed without a model
			x.c.oblige(fmt.Sprintf("%s#call:%s", x.target, nm), "call", x.target, "callsite "+cs.Callee+" "+cs.Clause.Text+"   [does not evaluate against the current code]", fr.pos(pos), st.Reach, "false", nil)
			continue
		}
		g := gv.T
		x.c.oblige(fmt.Sprintf("%s#call:%s", x.target, nm), "call", x.target, "callsite "+cs.Callee+" "+cs.Clause.Text, fr.pos(pos), st.Reach, g, x.topReqs)
		// once checked, the fact may be used by what follows (cut)
		x.c.assume(implies(st.Reach, g))
	}
}

func (fr *Frame) goStmt(st *State, in *ssa.Go) {
	x := fr.x
	fr.curSite = in
	cc := in.Common()
	var args []string
	if cc.IsInvoke() {
		args = append(args, fr.val(cc.Value))
	}
	for _, a := range cc.Args {
		args = append(args, fr.val(a))
	}
	key := ""
	var callee *ssa.Function
	if cc.IsInvoke() {
		key = ShortName(fmt.Sprintf("(%s).%s", cc.Value.Type().String(), cc.Method.Name()))
	} else if f := cc.StaticCallee(); f != nil {
		key = FuncKey(f)
		callee = f
	} else {
		key = "dynamic:" + fr.describeValue(cc.Value)
	}
	fr.callsiteSpecs(st, key, callee, args, cc, true, in.Pos())
	x.bump(st, "go:"+key)
	// a spawned function with a contract: its preconditions are obligations of the spawner (checked in the state at the
	// go statement; the contract of a goroutine body may therefore only require facts that are stable, i.e. about its
	// arguments and captured variables, not about state other goroutines change)
	if callee != nil {
		if ct := x.w.Contracts[key]; ct != nil && ct.HasSpec && len(ct.Requires) > 0 {
			names := map[string]Val{}
			for i, p := range callee.Params {
				if i < len(args) {
					names[p.Name()] = Val{T: args[i], Ty: p.Type()}
				}
			}
			for k, v := range fr.freeBindings(callee, cc) {
				names[k] = v
			}
			var pkg *types.Package
			if callee.Pkg != nil {
				pkg = callee.Pkg.Pkg
			}
			// the new goroutine holds no lock: lock predicates of its contract are read in a state where none is held
			gst := st.clone()
			gst.Comp["lock"] = "((as const (Array Loc Int)) 0)"
			sc := &Scope{x: x, vars: names, st: gst, old: gst, pkg: pkg}
			for i, cl := range ct.Requires {
				nm := cl.Name
				if nm == "" {
					nm = fmt.Sprint(i + 1)
				}
				oname := fmt.Sprintf("%s#pre@go:%s:%s", x.target, ct.Key, nm)
				gv, ok := sc.tryEval(cl.E)
				if !ok {
					x.c.oblige(oname, "pre", x.target, "requires "+cl.Text+"   [does not evaluate at the go statement]", fr.pos(in.Pos()), st.Reach, "false", nil)
					continue
				}
				x.c.oblige(oname, "pre", x.target, "requires "+cl.Text, fr.pos(in.Pos()), st.Reach, gv.T, x.topReqs)
			}
		}
	}
}

// the values bound to the free variables of a closure at a call or go site, by variable name
func (fr *Frame) freeBindings(callee *ssa.Function, cc *ssa.CallCommon) map[string]Val {
	mc, ok := cc.Value.(*ssa.MakeClosure)
	if !ok || callee == nil {
		return nil
	}
	out := map[string]Val{}
	for i, b := range mc.Bindings {
		if i < len(callee.FreeVars) {
			out[callee.FreeVars[i].Name()] = Val{T: fr.val(b), Ty: b.Type(), ptrToVar: true}
			out[fmt.Sprintf("fv%d", i)] = Val{T: fr.val(b), Ty: b.Type(), ptrToVar: true}
		}
	}
	return out
}

func (fr *Frame) deferStmt(st *State, in *ssa.Defer) {
	k := -1
	for i, d := range fr.defers {
		if d == in {
			k = i
		}
	}
	if k < 0 {
		fr.defers = append(fr.defers, in)
		k = len(fr.defers) - 1
	}
	st.Comp[fmt.Sprintf("dfr:%s/%d/%d", fr.key, fr.depth, k)] = "true"
}

func (fr *Frame) runDefers(st *State) {
	x := fr.x
	for k := len(fr.defers) - 1; k >= 0; k-- {
		d := fr.defers[k]
		flag := x.get(st, fmt.Sprintf("dfr:%s/%d/%d", fr.key, fr.depth, k))
		if flag == "false" {
			continue
		}
		if flag == "true" {
			fr.call(st, nil, d.Common(), d)
			continue
		}
		yes := st.clone()
		yes.Reach = x.c.define("R", "Bool", and(st.Reach, flag))
		no := st.clone()
		no.Reach = x.c.define("R", "Bool", and(st.Reach, not(flag)))
		fr.call(yes, nil, d.Common(), d)
		m := x.merge([]*State{yes, no})
		st.Reach, st.Gen, st.Comp = m.Reach, m.Gen, m.Comp
	}
}

// ---- builtins ------------------------------------------------------------------------------------

func (fr *Frame) builtin(st *State, v ssa.Value, b *ssa.Builtin, cc *ssa.CallCommon, args []string, pos token.Pos) {
	x := fr.x
	c := x.c
	set := func(t string) {
		if v != nil {
			fr.env[v] = c.define(v.Name(), c.sortOf(v.Type()), t)
		}
	}
	switch b.Name() {
	case "len":
		switch u := cc.Args[0].Type().Underlying().(type) {
		case *types.Slice:
			set(sx("sl_len", args[0]))
		case *types.Basic:
			set(sx("s_len", args[0]))
		case *types.Map:
			x.mapLenFacts(st, u, args[0], "")
			set(x.mapLen(st, args[0]))
		case *types.Array:
			set(c.idx(u.Len()))
		case *types.Pointer:
			set(c.idx(u.Elem().Underlying().(*types.Array).Len()))
		default:
			set(c.freshConst("len", c.idxSort()))
		}
	case "cap":
		switch cc.Args[0].Type().Underlying().(type) {
		case *types.Slice:
			set(sx("sl_cap", args[0]))
		default:
			set(c.freshConst("cap", c.idxSort()))
		}
	case "append":
		fr.appendOp(st, v, cc, args)
	case "copy":
		fr.copyOp(st, v, cc, args)
	case "delete":
		mt := cc.Args[0].Type().Underlying().(*types.Map)
		x.mapDelete(st, mt, args[0], args[1])
	case "close":
		// closing a channel is an effect like a call: "callsite close:<channel> name: cond" ($0 is the channel)
		fr.pseudoCallSpecs(st, "close:"+fr.describeValue(cc.Args[0]), []Val{{T: args[0], Ty: cc.Args[0].Type()}}, pos)
		x.bump(st, "chan:close")
		x.bump(st, "close:"+fr.describeValue(cc.Args[0]))
	case "print", "println":
	case "ssa:wrapnilchk":
		fr.safe(st, "nil-deref", pos, not(eq(args[0], "nil")))
		set(args[0])
	case "min", "max":
		ii, _ := basicInt(cc.Args[0].Type())
		r := args[0]
		for _, a := range args[1:] {
			var lt string
			if c.Int {
				lt = sx("<", a, r)
			} else if ii.signed {
				lt = sx("bvslt", a, r)
			} else {
				lt = sx("bvult", a, r)
			}
			if b.Name() == "max" {
				lt = not(lt)
				r = ite(and(lt, not(eq(a, r))), a, r)
			} else {
				r = ite(lt, a, r)
			}
		}
		set(r)
	case "recover":
		// recover() in a deferred function: non-nil while the deferred functions run because of a panic, nil otherwise
		if x.panicDepth > 0 {
			r := c.freshConst("recovered", "Iface")
			c.assume(not(eq(sx("itag", r), "0")))
			set(r)
		} else {
			set("(mk_iface 0 box0)")
		}
	default:
		c.Notes = append(c.Notes, fr.key+": builtin "+b.Name()+" havoced")
		if v != nil {
			fr.setResults(v, cc.Signature(), fr.havocResults(st, cc.Signature()))
		}
	}
}

// append: result is a fresh array holding the old elements followed by the new ones (contents
// axiomatised with quantifiers only for single-leaf element types). In-place growth (sharing with
// the argument's spare capacity) is not modelled: listed as an assumption.
func (fr *Frame) appendOp(st *State, v ssa.Value, cc *ssa.CallCommon, args []string) {
	x := fr.x
	c := x.c
	s, t := args[0], args[1]
	elem := cc.Args[0].Type().Underlying().(*types.Slice).Elem()
	var tl string
	if _, isStr := cc.Args[1].Type().Underlying().(*types.Basic); isStr {
		tl = sx("s_len", t)
	} else {
		tl = sx("sl_len", t)
	}
	sl := sx("sl_len", s)
	nl := c.define("applen", c.idxSort(), x.addIdx(sl, tl))
	arr := c.define("arr", "Loc", x.alloc(st, "append"))
	cp := c.freshConst("cap", c.idxSort())
	c.assume(implies(st.Reach, x.leIdx(nl, cp)))
	if !c.Int {
		// lengths of real slices are far below 2^62: no wrap-around in len arithmetic
		c.assume(implies(st.Reach, and(x.leIdx(sl, "#x0fffffffffffffff"), x.leIdx(tl, "#x0fffffffffffffff"))))
	}
	// appending nothing to nil yields nil
	r := c.define("app", "Slice", ite(and(eq(nl, c.idx(0)), eq(sx("sl_arr", s), "nil")), s, sx("mk_slice", arr, c.idx(0), nl, cp)))
	if v != nil {
		fr.env[v] = r
	}
	_, tIsStr := cc.Args[1].Type().Underlying().(*types.Basic)
	var catFact func()
	if ii, ok := basicInt(elem); ok && ii.w == 8 {
		// byte strings: the content of the result is the concatenation of the contents of the operands
		// (a definitional fact about append, stated over the mathematical byte strings bstr/s_cat)
		bs, bt := x.bstrOf(st, s), t
		if !tIsStr {
			bt = x.bstrOf(st, t)
		}
		catFact = func() { c.assume(implies(st.Reach, eq(x.bstrOf(st, r), x.scat(bs, bt)))) }
	}
	defer func() {
		if catFact != nil {
			catFact()
		}
	}()
	x.bulkWrite(st, elem, arr, c.idx(0), nl, func(i string, lp leafPath, pre map[string]string) string {
		var src string
		if tIsStr {
			src = sx("s_at", t, x.subIdx(i, sl))
		} else {
			src = x.sliceLeaf(t, x.subIdx(i, sl), lp, pre)
		}
		return ite(x.ltIdx(i, sl), x.sliceLeaf(s, i, lp, pre), src)
	})
}

func (fr *Frame) copyOp(st *State, v ssa.Value, cc *ssa.CallCommon, args []string) {
	x := fr.x
	c := x.c
	dst, src := args[0], args[1]
	_, srcStr := cc.Args[1].Type().Underlying().(*types.Basic)
	var sl string
	if srcStr {
		sl = sx("s_len", src)
	} else {
		sl = sx("sl_len", src)
	}
	dl := sx("sl_len", dst)
	n := c.define("copyn", c.idxSort(), ite(x.ltIdx(sl, dl), sl, dl))
	if v != nil {
		fr.env[v] = n
	}
	elem := cc.Args[0].Type().Underlying().(*types.Slice).Elem()
	if srcStr && c.Int {
		x.havocSorts(st, x.leafSorts(elem, nil))
		return
	}
	var srcStrTerm string
	if ii, ok := basicInt(elem); ok && ii.w == 8 && !srcStr {
		// byte strings: afterwards the first n bytes of dst are the first n bytes src had
		srcStrTerm = x.bstrOf(st, sx("mk_slice", sx("sl_arr", src), sx("sl_off", src), n, x.subIdx(sx("sl_cap", src), c.idx(0))))
	}
	x.bulkWrite(st, elem, sx("sl_arr", dst), sx("sl_off", dst), n, func(i string, lp leafPath, pre map[string]string) string {
		if srcStr {
			return sx("s_at", src, i)
		}
		return x.sliceLeaf(src, i, lp, pre)
	})
	if srcStrTerm != "" {
		c.assume(implies(st.Reach, eq(x.bstrOf(st, sx("mk_slice", sx("sl_arr", dst), sx("sl_off", dst), n, sx("sl_cap", dst))), srcStrTerm)))
	}
}

// length of a slice expression when statically known (slice of *[N]T with constant bounds)
func staticSliceLen(v ssa.Value) (int64, bool) {
	s, ok := v.(*ssa.Slice)
	if !ok {
		return 0, false
	}
	p, ok := s.X.Type().Underlying().(*types.Pointer)
	if !ok {
		return 0, false
	}
	a, ok := p.Elem().Underlying().(*types.Array)
	if !ok {
		return 0, false
	}
	if s.Low != nil || s.High != nil {
		lo, hi := int64(0), a.Len()
		if s.Low != nil {
			k, ok := s.Low.(*ssa.Const)
			if !ok {
				return 0, false
			}
			lo = k.Int64()
		}
		if s.High != nil {
			k, ok := s.High.(*ssa.Const)
			if !ok {
				return 0, false
			}
			hi = k.Int64()
		}
		return hi - lo, true
	}
	return a.Len(), true
}
