package govc

import (
	"bytes"
	"context"
	"fmt"
	"os"
	"os/exec"
	"path/filepath"
	"regexp"
	"strings"
	"sync"
	"time"
)

// ---- solver portfolio ------------------------------------------------------------------------

type SolverRun struct {
	Solver  string  `json:"solver"`
	Result  string  `json:"result"` // unsat | sat | unknown | timeout | error
	Seconds float64 `json:"seconds"`
	Output  string  `json:"output,omitempty"`
}

var solverCmds = map[string]func(file string, timeoutS int, seed int) []string{
	"z3-new": func(f string, t int, seed int) []string {
		return []string{"z3-new", fmt.Sprintf("-T:%d", t), fmt.Sprintf("smt.random_seed=%d", seed), "-smt2", f}
	},
	"z3": func(f string, t int, seed int) []string {
		return []string{"z3", fmt.Sprintf("-T:%d", t), fmt.Sprintf("smt.random_seed=%d", seed), "-smt2", f}
	},
	"cvc5": func(f string, t int, seed int) []string {
		return []string{"cvc5", "--lang=smt2", fmt.Sprintf("--tlimit=%d", t*1000), fmt.Sprintf("--seed=%d", seed), "--produce-models", f}
	},
}

var SolverOrder = []string{"z3-new", "z3", "cvc5"}

func runOne(solver, file string, timeoutS, seed int) SolverRun {
	return runOneCtx(context.Background(), solver, file, timeoutS, seed)
}

// cvc5 does not accept z3's (lambda ...) array terms: it gets the query with every lambda definition
// replaced by the equivalent quantified definition (written next to the query as <file>.cvc5).
func fileFor(solver, file string) string {
	if solver == "cvc5" {
		if _, err := os.Stat(file + ".cvc5"); err == nil {
			return file + ".cvc5"
		}
	}
	return file
}

var lambdaDefRe = regexp.MustCompile(`(?m)^\(define-fun (\S+) \(\) (\(Array Loc .*?\)) \(lambda \(\((l![0-9]+) Loc\)\) (.*)\)\)$`)

func quantifiedVariant(q string) (string, bool) {
	if !strings.Contains(q, "(lambda ((") {
		return "", false
	}
	return lambdaDefRe.ReplaceAllString(q, "(declare-const $1 $2)\n(assert (forall (($3 Loc)) (! (= (select $1 $3) $4) :pattern ((select $1 $3)))))"), true
}

func runOneCtx(parent context.Context, solver, file string, timeoutS, seed int) SolverRun {
	args := solverCmds[solver](fileFor(solver, file), timeoutS, seed)
	ctx, cancel := context.WithTimeout(parent, time.Duration(timeoutS+3)*time.Second)
	defer cancel()
	cmd := exec.CommandContext(ctx, args[0], args[1:]...)
	var out bytes.Buffer
	cmd.Stdout = &out
	cmd.Stderr = &out
	t0 := time.Now()
	_ = cmd.Run()
	secs := time.Since(t0).Seconds()
	s := out.String()
	first := strings.TrimSpace(strings.SplitN(strings.TrimSpace(s), "\n", 2)[0])
	res := "error"
	switch {
	case first == "unsat":
		res = "unsat"
	case first == "sat":
		res = "sat"
	case first == "unknown":
		res = "unknown"
	case parent.Err() != nil:
		res = "cancelled"
	case strings.Contains(first, "timeout") || ctx.Err() != nil || strings.Contains(s, "interrupted by timeout"):
		res = "timeout"
	}
	if len(s) > 2000000 {
		s = s[:2000000]
	}
	return SolverRun{Solver: solver, Result: res, Seconds: secs, Output: s}
}

// race runs all solvers at once; the first "unsat" cancels the others.
func race(file string, timeoutS, seed int, waitAll bool) []SolverRun {
	ctx, cancel := context.WithCancel(context.Background())
	defer cancel()
	ch := make(chan SolverRun, len(SolverOrder))
	for _, s := range SolverOrder {
		go func() { ch <- runOneCtx(ctx, s, file, timeoutS, seed) }()
	}
	var runs []SolverRun
	for range SolverOrder {
		r := <-ch
		runs = append(runs, r)
		if r.Result == "unsat" && !waitAll {
			cancel()
		}
	}
	return runs
}

// Discharge runs the portfolio on one query file. Returns all runs made. An "unsat" from any solver
// discharges. Strategy: z3-new alone for a short slice (most obligations are decided in well under a
// second); otherwise the three solvers raced with the full limit; then (if retry) raced again with three
// times the limit and another seed.
func Discharge(file string, timeoutS int, seed int, retry bool, all bool) []SolverRun {
	if all {
		runs := race(file, timeoutS, seed, true)
		for _, r := range runs {
			if r.Result == "unsat" || r.Result == "sat" {
				return runs
			}
		}
		// nobody decided within the limit: one long attempt (first answer wins) before the obligation is reported
		return append(runs, race(file, timeoutS*5, seed+104729, false)...)
	}
	quick := 2
	if timeoutS < quick {
		quick = timeoutS
	}
	r := runOne("z3-new", file, quick, seed)
	runs := []SolverRun{r}
	if r.Result == "unsat" {
		return runs
	}
	rs := race(file, timeoutS, seed, false)
	runs = append(runs, rs...)
	for _, r := range rs {
		if r.Result == "unsat" {
			return runs
		}
	}
	if retry {
		rs = race(file, timeoutS*3, seed+7919, false)
		runs = append(runs, rs...)
		// Still undecided and nobody produced a model: the machine may simply be busy (other checks running beside this
		// one). One last, long attempt before the obligation is reported -- a time-out must not become an alarm.
		decided := false
		for _, r := range runs {
			if r.Result == "unsat" || r.Result == "sat" {
				decided = true
			}
		}
		if !decided && os.Getenv("GOVC_EXPECT_VIOLATION") == "" {
			// (skipped when the run is a must-fail self-test: there an undecided obligation is the expected outcome)
			runs = append(runs, race(file, timeoutS*15, seed+104729, false)...)
		}
	}
	return runs
}

func Verdict(runs []SolverRun) (res string, by string, secs float64) {
	sat := ""
	for _, r := range runs {
		secs += r.Seconds
		if r.Result == "unsat" {
			return "unsat", r.Solver, secs
		}
		if r.Result == "sat" && sat == "" {
			sat = r.Solver
		}
	}
	if sat != "" {
		return "sat", sat, secs
	}
	return "unknown", "", secs
}

// ---- scratch dir -----------------------------------------------------------------------------

var scratchOnce sync.Once
var scratchDir string

func Scratch() string {
	scratchOnce.Do(func() {
		base := os.Getenv("TMPDIR")
		if base == "" {
			base = "/tmp"
		}
		d, err := os.MkdirTemp(base, "govc-")
		if err != nil {
			panic(err)
		}
		scratchDir = d
	})
	return scratchDir
}

func CleanupScratch() {
	if scratchDir != "" {
		os.RemoveAll(scratchDir)
	}
}

func writeScratch(name, content string) string {
	p := filepath.Join(Scratch(), name)
	os.MkdirAll(filepath.Dir(p), 0o755)
	if err := os.WriteFile(p, []byte(content), 0o644); err != nil {
		panic(err)
	}
	return p
}

// ---- term helpers ----------------------------------------------------------------------------

func sx(op string, args ...string) string {
	if r, ok := simp(op, args); ok {
		return r
	}
	return "(" + op + " " + strings.Join(args, " ") + ")"
}

func and(xs ...string) string {
	var ys []string
	for _, x := range xs {
		if x == "true" || x == "" {
			continue
		}
		if x == "false" {
			return "false"
		}
		ys = append(ys, x)
	}
	switch len(ys) {
	case 0:
		return "true"
	case 1:
		return ys[0]
	}
	return sx("and", ys...)
}

func or(xs ...string) string {
	var ys []string
	for _, x := range xs {
		if x == "false" || x == "" {
			continue
		}
		if x == "true" {
			return "true"
		}
		ys = append(ys, x)
	}
	switch len(ys) {
	case 0:
		return "false"
	case 1:
		return ys[0]
	}
	return sx("or", ys...)
}

func not(x string) string {
	switch x {
	case "true":
		return "false"
	case "false":
		return "true"
	}
	if strings.HasPrefix(x, "(not ") && balanced(x[5:len(x)-1]) {
		return x[5 : len(x)-1]
	}
	return sx("not", x)
}

func balanced(s string) bool {
	d := 0
	for i, c := range s {
		if c == '(' {
			d++
		} else if c == ')' {
			d--
			if d == 0 && i != len(s)-1 {
				return false
			}
			if d < 0 {
				return false
			}
		} else if d == 0 && (c == ' ') {
			return false
		}
	}
	return d == 0
}

func implies(a, b string) string {
	if a == "true" {
		return b
	}
	if b == "true" {
		return "true"
	}
	return sx("=>", a, b)
}

func ite(c, a, b string) string {
	if a == b {
		return a
	}
	if c == "true" {
		return a
	}
	if c == "false" {
		return b
	}
	return sx("ite", c, a, b)
}

func eq(a, b string) string {
	if a == b {
		return "true"
	}
	if r, ok := simp("=", []string{a, b}); ok {
		return r
	}
	return sx("=", a, b)
}

func bvLit(v uint64, w int) string {
	if w%4 == 0 {
		return fmt.Sprintf("#x%0*x", w/4, v&mask(w))
	}
	return fmt.Sprintf("(_ bv%d %d)", v&mask(w), w)
}

func mask(w int) uint64 {
	if w >= 64 {
		return ^uint64(0)
	}
	return (uint64(1) << uint(w)) - 1
}

func intLit(v int64) string {
	if v < 0 {
		return fmt.Sprintf("(- %d)", -v)
	}
	return fmt.Sprintf("%d", v)
}

func mangle(s string) string {
	var b strings.Builder
	for _, c := range s {
		switch {
		case c >= 'a' && c <= 'z', c >= 'A' && c <= 'Z', c >= '0' && c <= '9', c == '_', c == '.':
			b.WriteRune(c)
		case c == '*':
			b.WriteString("P")
		case c == '/':
			b.WriteString(".")
		case c == '[' || c == ']' || c == '(' || c == ')' || c == ' ' || c == ',' || c == '{' || c == '}' || c == ';':
			b.WriteString("_")
		default:
			b.WriteString("_")
		}
	}
	return b.String()
}
