package govc

import (
	"fmt"
	"go/constant"
	"go/token"
	"go/types"
	"strings"

	"golang.org/x/tools/go/ssa"
)

func (x *Exec) constTerm(v *ssa.Const) string {
	t := v.Type()
	if v.Value == nil {
		return x.c.zero(t)
	}
	switch v.Value.Kind() {
	case constant.Bool:
		if constant.BoolVal(v.Value) {
			return "true"
		}
		return "false"
	case constant.String:
		return x.c.strLit(constant.StringVal(v.Value))
	case constant.Int:
		if ii, ok := basicInt(t); ok {
			if x.c.Int {
				return intLitBig(v.Value.ExactString())
			}
			if i64, ok := constant.Int64Val(v.Value); ok {
				return bvLit(uint64(i64), ii.w)
			}
			u64, _ := constant.Uint64Val(v.Value)
			return bvLit(u64, ii.w)
		}
		if x.c.sortOf(t) == "F64" {
			return x.c.freshConst("fconst", "F64")
		}
	}
	return x.c.freshConst("const", x.c.sortOf(t))
}

func intLitBig(s string) string {
	if strings.HasPrefix(s, "-") {
		return "(- " + s[1:] + ")"
	}
	return s
}

// instr executes one non-phi instruction; returns false if control does not continue (return/panic).
func (fr *Frame) instr(st *State, in ssa.Instruction) bool {
	x := fr.x
	c := x.c
	def := func(v ssa.Value, term string) {
		fr.env[v] = c.define(v.Name(), c.sortOf(v.Type()), term)
	}
	switch in := in.(type) {
	case *ssa.DebugRef:
		return true
	case *ssa.Alloc:
		loc := x.alloc(st, in.Comment)
		fr.env[in] = c.define(in.Name(), "Loc", loc)
		if !in.Heap {
			x.privateRefs = append(x.privateRefs, sx("ref", loc))
			for _, o := range x.outsideRefs {
				c.assume(not(eq(o, sx("ref", loc))))
			}
		}
		x.localObjs = append(x.localObjs, localObj{ref: sx("ref", fr.env[in]), ty: in.Type().Underlying().(*types.Pointer).Elem()})
		x.zeroInit(st, in.Type().Underlying().(*types.Pointer).Elem(), fr.env[in])
		x.unlockedInit(st, in.Type().Underlying().(*types.Pointer).Elem(), fr.env[in], 0)
	case *ssa.BinOp:
		def(in, fr.binop(st, in.Op, in.X.Type(), in.Y.Type(), fr.val(in.X), fr.val(in.Y), in.Pos()))
	case *ssa.UnOp:
		fr.unop(st, in, def)
	case *ssa.FieldAddr:
		p := fr.val(in.X)
		fr.safe(st, "nil-deref", in.Pos(), not(eq(p, "nil")))
		def(in, fld(p, in.Field))
	case *ssa.Field:
		def(in, c.fieldOf(in.X.Type().Underlying().(*types.Struct), fr.val(in.X), in.Field))
	case *ssa.IndexAddr:
		i := fr.toIdx(in.Index)
		switch u := in.X.Type().Underlying().(type) {
		case *types.Pointer:
			n := u.Elem().Underlying().(*types.Array).Len()
			p := fr.val(in.X)
			fr.safe(st, "nil-deref", in.Pos(), not(eq(p, "nil")))
			fr.safe(st, "index-bounds", in.Pos(), and(x.leIdx(c.idx(0), i), x.ltIdx(i, c.idx(n))))
			def(in, elt(p, i))
		case *types.Slice:
			s := fr.val(in.X)
			fr.safe(st, "index-bounds", in.Pos(), and(x.leIdx(c.idx(0), i), x.ltIdx(i, sx("sl_len", s))))
			def(in, x.sliceElt(s, i))
		default:
			panic("IndexAddr on " + in.X.Type().String())
		}
	case *ssa.Index:
		i := fr.toIdx(in.Index)
		switch u := in.X.Type().Underlying().(type) {
		case *types.Array:
			fr.safe(st, "index-bounds", in.Pos(), and(x.leIdx(c.idx(0), i), x.ltIdx(i, c.idx(u.Len()))))
			def(in, x.arrayIndex(in.X.Type(), fr.val(in.X), i))
		case *types.Basic: // string
			s := fr.val(in.X)
			fr.safe(st, "index-bounds", in.Pos(), and(x.leIdx(c.idx(0), i), x.ltIdx(i, sx("s_len", s))))
			def(in, sx("s_at", s, i))
		default:
			def(in, c.freshConst("idxval", c.sortOf(in.Type())))
		}
	case *ssa.Store:
		p := fr.val(in.Addr)
		fr.safe(st, "nil-deref", in.Pos(), not(eq(p, "nil")))
		x.store(st, in.Val.Type(), p, fr.val(in.Val))
	case *ssa.Phi:
		panic("phi")
	case *ssa.Convert:
		def(in, fr.convert(st, in))
	case *ssa.ChangeType:
		fr.env[in] = fr.val(in.X)
		if mc, ok := in.X.(*ssa.MakeClosure); ok {
			_ = mc
		}
	case *ssa.ChangeInterface:
		fr.env[in] = fr.val(in.X)
	case *ssa.MakeInterface:
		def(in, c.mkIface(in.X.Type(), fr.val(in.X)))
	case *ssa.TypeAssert:
		fr.typeAssert(st, in)
	case *ssa.Extract:
		tp, ok := fr.tup[in.Tuple]
		if !ok || in.Index >= len(tp) {
			fr.env[in] = c.freshConst("extract", c.sortOf(in.Type()))
		} else {
			fr.env[in] = tp[in.Index]
		}
	case *ssa.Slice:
		fr.sliceOp(st, in, def)
	case *ssa.MakeSlice:
		n := fr.toIdx(in.Len)
		cp := fr.toIdx(in.Cap)
		fr.safe(st, "makeslice-len", in.Pos(), and(x.leIdx(c.idx(0), n), x.leIdx(n, cp)))
		arr := x.alloc(st, "makeslice")
		arr = c.define("arr", "Loc", arr)
		def(in, sx("mk_slice", arr, c.idx(0), n, cp))
		x.zeroSlice(st, in.Type().Underlying().(*types.Slice).Elem(), fr.env[in], n)
	case *ssa.MakeMap:
		m := c.define("map", "Loc", x.alloc(st, "makemap"))
		fr.env[in] = m
		x.mapInit(st, in.Type().Underlying().(*types.Map), m)
	case *ssa.MakeChan:
		ch := c.freshConst("chan", "Chan")
		c.assume(not(eq(ch, "nil_chan")))
		fr.env[in] = ch
	case *ssa.MakeClosure:
		if cf, ok := in.Fn.(*ssa.Function); ok && strings.HasSuffix(cf.Name(), "$bound") && len(in.Bindings) == 1 {
			// a bound method value x.M: the same function value for the same method and receiver
			fr.env[in] = c.define(in.Name(), "Fn", c.boundFn(strings.TrimSuffix(FuncKey(cf), "$bound"), c.sortOf(in.Bindings[0].Type()), fr.val(in.Bindings[0])))
			break
		}
		f := c.freshConst("closure", "Fn")
		c.assume(not(eq(f, "nil_fn")))
		fr.env[in] = f
	case *ssa.Lookup:
		fr.lookup(st, in, def)
	case *ssa.MapUpdate:
		mt := in.Map.Type().Underlying().(*types.Map)
		m := fr.val(in.Map)
		fr.safe(st, "nil-map-write", in.Pos(), not(eq(m, "nil")))
		x.mapUpdate(st, mt, m, fr.val(in.Key), fr.val(in.Value))
	case *ssa.Range:
		fr.env[in] = c.freshConst("iter", "Loc")
		if mt, ok := in.X.Type().Underlying().(*types.Map); ok {
			// ghost: number of elements produced so far, and the map contents the iteration started from
			st.Comp[mapIterKey(in)] = c.idx(0)
			st.Comp[mapVisitedKey(in, c.sortOf(mt.Key()))] = fmt.Sprintf("((as const (Array %s Bool)) false)", c.sortOf(mt.Key()))
			_, _, md, _ := x.mapKeys(mt)
			if fr.rangeDom == nil {
				fr.rangeDom = map[ssa.Value]string{}
			}
			fr.rangeDom[in] = sx("select", x.get(st, md), fr.val(in.X))
		}
	case *ssa.Next:
		fr.next(st, in)
	case *ssa.Call:
		fr.call(st, in, in.Common(), in)
	case *ssa.Go:
		fr.goStmt(st, in)
	case *ssa.Defer:
		fr.deferStmt(st, in)
	case *ssa.RunDefers:
		fr.runDefers(st)
	case *ssa.Send:
		fr.chanOp(st, "send", in.Pos())
	case *ssa.Select:
		fr.selectStmt(st, in)
	case *ssa.Return:
		var res []string
		for _, r := range in.Results {
			res = append(res, fr.val(r))
		}
		fr.rets = append(fr.rets, retInfo{st: st.clone(), results: res})
		return false
	case *ssa.Panic:
		fr.panicAt(st, in)
		return false
	case *ssa.If, *ssa.Jump:
		return true
	case *ssa.SliceToArrayPointer, *ssa.MultiConvert:
		x.c.Notes = append(x.c.Notes, fmt.Sprintf("%s: %T outside subset, result havoced", fr.key, in))
		fr.env[in.(ssa.Value)] = c.freshConst("havoc", c.sortOf(in.(ssa.Value).Type()))
	default:
		panic(fmt.Sprintf("instr: unsupported %T in %s", in, fr.key))
	}
	return true
}

func (fr *Frame) panicAt(st *State, in *ssa.Panic) {
	x := fr.x
	if rf := fr.recoveringFrame(st); rf != nil {
		rf.panicStates = append(rf.panicStates, st.clone())
		return
	}
	// a declared "panics if" clause makes the panic acceptable under that condition (top frame only)
	goal := "false"
	if fr.top && fr.ct != nil && len(fr.ct.PanicsIf) > 0 {
		sc := fr.scope(fr.entry, fr.entry)
		var cs []string
		for _, cl := range fr.ct.PanicsIf {
			cs = append(cs, sc.evalBool(cl.E))
		}
		goal = or(cs...)
	}
	what := "panic"
	if mi, ok := in.X.(*ssa.MakeInterface); ok {
		if k, ok := mi.X.(*ssa.Const); ok && k.Value != nil && k.Value.Kind() == constant.String {
			what = "panic:" + mangle(trunc(constant.StringVal(k.Value), 30))
		}
	}
	if x.safety {
		name := fmt.Sprintf("%s#safe:%s", x.target, what)
		if !fr.top {
			name = fmt.Sprintf("%s#safe:%s:%s", x.target, fr.prefix, what)
		}
		x.c.oblige(name, "safe", x.target, "explicit panic unreachable", fr.pos(in.Pos()), st.Reach, goal, x.topReqs)
	}
}

func (fr *Frame) toIdx(v ssa.Value) string {
	if v == nil {
		return ""
	}
	t := fr.val(v)
	ii, ok := basicInt(v.Type())
	if !ok || fr.x.c.Int {
		return t
	}
	return extendTo(t, ii, 64)
}

func extendTo(t string, ii intInfo, w int) string {
	if ii.w == w {
		return t
	}
	if ii.w > w {
		return sx(fmt.Sprintf("(_ extract %d 0)", w-1), t)
	}
	if ii.signed {
		return sx(fmt.Sprintf("(_ sign_extend %d)", w-ii.w), t)
	}
	return sx(fmt.Sprintf("(_ zero_extend %d)", w-ii.w), t)
}

func (x *Exec) arrayIndex(t types.Type, arr, i string) string {
	if n, ok := isByteArray(t); ok && !x.c.Int {
		if n == 1 {
			return arr
		}
		// byte i of a big-endian bit-vector: shift right by 8*(n-1-i) and take the low byte
		w := 8 * n
		sh := sx("bvmul", sx("bvsub", bvLit(uint64(n-1), 64), i), bvLit(8, 64))
		var shw string
		if w > 64 {
			shw = sx(fmt.Sprintf("(_ zero_extend %d)", w-64), sh)
		} else if w < 64 {
			shw = sx(fmt.Sprintf("(_ extract %d 0)", w-1), sh)
		} else {
			shw = sh
		}
		return sx("(_ extract 7 0)", sx("bvlshr", arr, shw))
	}
	return sx("select", arr, i)
}

func (fr *Frame) binop(st *State, op token.Token, tx, ty types.Type, a, b string, pos token.Pos) string {
	x := fr.x
	c := x.c
	ii, isInt := basicInt(tx)
	switch op {
	case token.EQL, token.NEQ:
		e := x.equal(tx, a, b)
		if op == token.NEQ {
			return not(e)
		}
		return e
	}
	if isInt && c.Int {
		switch op {
		case token.ADD:
			r := sx("+", a, b)
			fr.overflow(st, ii, r, pos)
			return r
		case token.SUB:
			r := sx("-", a, b)
			fr.overflow(st, ii, r, pos)
			return r
		case token.MUL:
			r := sx("*", a, b)
			fr.overflow(st, ii, r, pos)
			return r
		case token.QUO:
			fr.safe(st, "div-by-zero", pos, not(eq(b, "0")))
			// Go truncates toward zero
			return ite(sx(">=", a, "0"), sx("div", a, sx("abs", b)+""), sx("-", sx("div", sx("-", a), sx("abs", b)))) + divSign(b)
		case token.REM:
			fr.safe(st, "div-by-zero", pos, not(eq(b, "0")))
			return ite(sx(">=", a, "0"), sx("mod", a, sx("abs", b)), sx("-", sx("mod", sx("-", a), sx("abs", b))))
		case token.LSS:
			return sx("<", a, b)
		case token.LEQ:
			return sx("<=", a, b)
		case token.GTR:
			return sx(">", a, b)
		case token.GEQ:
			return sx(">=", a, b)
		}
		c.Notes = append(c.Notes, fmt.Sprintf("%s: bit operation %s in arith-int mode: result havoced", fr.key, op))
		return c.freshConst("bitop", "Int")
	}
	if isInt {
		sg := ii.signed
		pick := func(s, u string) string {
			if sg {
				return s
			}
			return u
		}
		switch op {
		case token.ADD:
			return sx("bvadd", a, b)
		case token.SUB:
			return sx("bvsub", a, b)
		case token.MUL:
			return sx("bvmul", a, b)
		case token.QUO:
			fr.safe(st, "div-by-zero", pos, not(eq(b, bvLit(0, ii.w))))
			return sx(pick("bvsdiv", "bvudiv"), a, b)
		case token.REM:
			fr.safe(st, "div-by-zero", pos, not(eq(b, bvLit(0, ii.w))))
			return sx(pick("bvsrem", "bvurem"), a, b)
		case token.AND:
			return sx("bvand", a, b)
		case token.OR:
			return sx("bvor", a, b)
		case token.XOR:
			return sx("bvxor", a, b)
		case token.AND_NOT:
			return sx("bvand", a, sx("bvnot", b))
		case token.SHL, token.SHR:
			iy, _ := basicInt(ty)
			if iy.signed {
				fr.safe(st, "negative-shift", pos, sx("bvsge", b, bvLit(0, iy.w)))
			}
			// bring the count to the operand width, saturating
			var cnt string
			switch {
			case iy.w == ii.w:
				cnt = b
			case iy.w < ii.w:
				cnt = sx(fmt.Sprintf("(_ zero_extend %d)", ii.w-iy.w), b)
			default:
				cnt = ite(sx("bvuge", b, bvLit(uint64(ii.w), iy.w)), bvLit(uint64(ii.w), ii.w), sx(fmt.Sprintf("(_ extract %d 0)", ii.w-1), b))
			}
			if op == token.SHL {
				return sx("bvshl", a, cnt)
			}
			return sx(pick("bvashr", "bvlshr"), a, cnt)
		case token.LSS:
			return sx(pick("bvslt", "bvult"), a, b)
		case token.LEQ:
			return sx(pick("bvsle", "bvule"), a, b)
		case token.GTR:
			return sx(pick("bvsgt", "bvugt"), a, b)
		case token.GEQ:
			return sx(pick("bvsge", "bvuge"), a, b)
		}
	}
	if bt, ok := tx.Underlying().(*types.Basic); ok {
		switch {
		case bt.Info()&types.IsBoolean != 0:
			switch op {
			case token.AND, token.LAND:
				return and(a, b)
			case token.OR, token.LOR:
				return or(a, b)
			}
		case bt.Info()&types.IsString != 0:
			switch op {
			case token.ADD:
				r := c.freshConst("concat", "Str")
				c.assume(eq(sx("s_len", r), x.addIdx(sx("s_len", a), sx("s_len", b))))
				return r
			case token.LSS, token.LEQ, token.GTR, token.GEQ:
				return c.freshConst("strcmp", "Bool")
			}
		}
	}
	c.Notes = append(c.Notes, fmt.Sprintf("%s: binop %s on %s havoced", fr.key, op, tx))
	s := "Bool"
	switch op {
	case token.LSS, token.LEQ, token.GTR, token.GEQ:
	default:
		s = c.sortOf(tx)
	}
	return c.freshConst("binop", s)
}

func divSign(b string) string { return "" }

func (fr *Frame) overflow(st *State, ii intInfo, r string, pos token.Pos) {
	lo, hi := intRange(ii)
	fr.safe(st, "overflow", pos, and(sx("<=", lo, r), sx("<=", r, hi)))
}

func intRange(ii intInfo) (string, string) {
	if ii.signed {
		switch ii.w {
		case 8:
			return "(- 128)", "127"
		case 16:
			return "(- 32768)", "32767"
		case 32:
			return "(- 2147483648)", "2147483647"
		}
		return "(- 9223372036854775808)", "9223372036854775807"
	}
	switch ii.w {
	case 8:
		return "0", "255"
	case 16:
		return "0", "65535"
	case 32:
		return "0", "4294967295"
	}
	return "0", "18446744073709551615"
}

// Go equality on values of type t
func (x *Exec) equal(t types.Type, a, b string) string {
	t = types.Unalias(t)
	switch t.Underlying().(type) {
	case *types.Interface:
		if _, isTP := t.(*types.TypeParam); isTP {
			return eq(a, b)
		}
		if a == "(mk_iface 0 box0)" {
			return eq(sx("itag", b), "0")
		}
		if b == "(mk_iface 0 box0)" {
			return eq(sx("itag", a), "0")
		}
		return or(eq(a, b), and(eq(sx("itag", a), "0"), eq(sx("itag", b), "0")))
	case *types.Slice:
		// only comparison with nil is legal
		if strings.HasPrefix(a, "(mk_slice nil") {
			return eq(sx("sl_arr", b), "nil")
		}
		if strings.HasPrefix(b, "(mk_slice nil") {
			return eq(sx("sl_arr", a), "nil")
		}
		return eq(a, b) // specification-level identity of two slice values
	}
	return eq(a, b)
}

func (fr *Frame) unop(st *State, in *ssa.UnOp, def func(ssa.Value, string)) {
	x := fr.x
	c := x.c
	a := fr.val(in.X)
	switch in.Op {
	case token.MUL: // load
		fr.safe(st, "nil-deref", in.Pos(), not(eq(a, "nil")))
		v := x.loadOwned(st, in.Type(), a, ownerOfAddr(in.X))
		def(in, v)
		x.assumeAllocated(st, in.Type(), fr.env[in])
	case token.NOT:
		def(in, not(a))
	case token.SUB:
		if c.Int {
			def(in, sx("-", a))
		} else {
			def(in, sx("bvneg", a))
		}
	case token.XOR:
		if c.Int {
			def(in, c.freshConst("bitnot", "Int"))
		} else {
			def(in, sx("bvnot", a))
		}
	case token.ARROW:
		fr.chanOp(st, "recv", in.Pos())
		if in.CommaOk {
			v := c.freshConst("recv", c.sortOf(in.Type().(*types.Tuple).At(0).Type()))
			fr.tup[in] = []string{v, c.freshConst("recvok", "Bool")}
			x.assumeAllocatedDeep(st, in.Type().(*types.Tuple).At(0).Type(), v)
		} else {
			fr.env[in] = c.freshConst("recv", c.sortOf(in.Type()))
			x.assumeAllocatedDeep(st, in.Type(), fr.env[in])
		}
	default:
		panic("unop " + in.Op.String())
	}
}

func (fr *Frame) convert(st *State, in *ssa.Convert) string {
	x := fr.x
	c := x.c
	a := fr.val(in.X)
	from, to := in.X.Type(), in.Type()
	fi, fok := basicInt(from)
	ti, tok := basicInt(to)
	if fok && tok {
		if c.Int {
			if fi == ti {
				return a
			}
			lo, hi := intRange(ti)
			flo, fhi := intRange(fi)
			_ = flo
			_ = fhi
			// conversion keeps the value only if it fits; otherwise it wraps (modelled exactly for
			// unsigned targets, obligation for signed targets)
			if !ti.signed {
				m := new(big1).pow2(ti.w)
				return sx("mod", a, m)
			}
			fr.safe(st, "overflow", in.Pos(), and(sx("<=", lo, a), sx("<=", a, hi)))
			return a
		}
		return extendTo(a, fi, ti.w)
	}
	fs, ts := c.sortOf(from), c.sortOf(to)
	switch {
	case fs == "Slice" && ts == "Str": // string(bytes)
		r := c.freshConst("str", "Str")
		c.assume(implies(st.Reach, eq(sx("s_len", r), sx("sl_len", a))))
		if ii, ok := basicInt(from.Underlying().(*types.Slice).Elem()); ok && ii.w == 8 {
			// string(b) is the content of b as a byte string
			c.assume(implies(st.Reach, eq(r, x.bstrOf(st, a))))
		}
		if c.Int {
			return r // bytes are mathematical integers in this mode: content only through bstr
		}
		// content: r[i] == a[i]
		h := x.get(st, "H:(_ BitVec 8)")
		i := c.fresh("i")
		c.assume(fmt.Sprintf("(forall ((%s %s)) (! (=> (and %s %s) (= (s_at %s %s) (select %s %s))) :pattern ((s_at %s %s))))",
			i, c.idxSort(), x.leIdx(c.idx(0), i), x.ltIdx(i, sx("sl_len", a)), r, i, h, x.sliceElt(a, i), r, i))
		return r
	case fs == "Str" && ts == "Slice": // []byte(s)
		arr := c.define("arr", "Loc", x.alloc(st, "bytes"))
		n := sx("s_len", a)
		r := sx("mk_slice", arr, c.idx(0), n, n)
		if c.Int {
			x.havocObject(st, map[string]bool{"Byte": true}, arr)
		} else {
			x.bulkWrite(st, types.Typ[types.Uint8], arr, c.idx(0), n, func(i string, lp leafPath, pre map[string]string) string {
				return sx("s_at", a, i)
			})
		}
		c.assume(implies(st.Reach, eq(x.bstrOf(st, r), a)))
		return r
	case fs == ts:
		return a
	}
	c.Notes = append(c.Notes, fmt.Sprintf("%s: conversion %s -> %s havoced", fr.key, from, to))
	return c.freshConst("conv", ts)
}

type big1 struct{}

func (*big1) pow2(w int) string {
	switch w {
	case 8:
		return "256"
	case 16:
		return "65536"
	case 32:
		return "4294967296"
	}
	return "18446744073709551616"
}

func (fr *Frame) typeAssert(st *State, in *ssa.TypeAssert) {
	x := fr.x
	c := x.c
	a := fr.val(in.X)
	at := in.AssertedType
	var ok, v string
	if types.IsInterface(at) {
		// interface-to-interface: succeeds for a non-nil value whose dynamic type implements it;
		// decided statically when the source type already implements the asserted one
		if types.AssignableTo(in.X.Type(), at) {
			ok = not(eq(sx("itag", a), "0"))
		} else {
			ok = and(c.freshConst("implements", "Bool"), not(eq(sx("itag", a), "0")))
		}
		v = a
	} else {
		ok = eq(sx("itag", a), fmt.Sprint(c.typeTag(at)))
		v = c.unbox(at, a)
	}
	if in.CommaOk {
		okn := c.define("ok", "Bool", ok)
		var zero string
		if types.IsInterface(at) {
			zero = "(mk_iface 0 box0)"
		} else {
			zero = c.zero(at)
		}
		vn := c.define(in.Name(), c.sortOf(at), ite(okn, v, zero))
		fr.tup[in] = []string{vn, okn}
		x.assumeAllocated(st, at, vn)
		return
	}
	fr.safe(st, "type-assert", in.Pos(), ok)
	fr.env[in] = c.define(in.Name(), c.sortOf(at), v)
	x.assumeAllocated(st, at, fr.env[in])
}

func (fr *Frame) sliceOp(st *State, in *ssa.Slice, def func(ssa.Value, string)) {
	x := fr.x
	c := x.c
	a := fr.val(in.X)
	lo := c.idx(0)
	if in.Low != nil {
		lo = fr.toIdx(in.Low)
	}
	switch u := in.X.Type().Underlying().(type) {
	case *types.Pointer: // *array
		n := c.idx(u.Elem().Underlying().(*types.Array).Len())
		hi, mx := n, n
		if in.High != nil {
			hi = fr.toIdx(in.High)
		}
		if in.Max != nil {
			mx = fr.toIdx(in.Max)
		}
		fr.safe(st, "nil-deref", in.Pos(), not(eq(a, "nil")))
		fr.safe(st, "slice-bounds", in.Pos(), and(x.leIdx(c.idx(0), lo), x.leIdx(lo, hi), x.leIdx(hi, mx), x.leIdx(mx, n)))
		def(in, sx("mk_slice", a, lo, x.subIdx(hi, lo), x.subIdx(mx, lo)))
	case *types.Slice:
		hi := sx("sl_len", a)
		mx := sx("sl_cap", a)
		if in.High != nil {
			hi = fr.toIdx(in.High)
		}
		if in.Max != nil {
			mx = fr.toIdx(in.Max)
		}
		fr.safe(st, "slice-bounds", in.Pos(), and(x.leIdx(c.idx(0), lo), x.leIdx(lo, hi), x.leIdx(hi, mx), x.leIdx(mx, sx("sl_cap", a))))
		def(in, sx("mk_slice", sx("sl_arr", a), x.addIdx(sx("sl_off", a), lo), x.subIdx(hi, lo), x.subIdx(mx, lo)))
	case *types.Basic: // string
		hi := sx("s_len", a)
		if in.High != nil {
			hi = fr.toIdx(in.High)
		}
		fr.safe(st, "slice-bounds", in.Pos(), and(x.leIdx(c.idx(0), lo), x.leIdx(lo, hi), x.leIdx(hi, sx("s_len", a))))
		r := c.freshConst("substr", "Str")
		c.assume(implies(st.Reach, eq(sx("s_len", r), x.subIdx(hi, lo))))
		i := c.fresh("i")
		c.assume(fmt.Sprintf("(forall ((%s %s)) (! (=> (and %s %s) (= (s_at %s %s) (s_at %s %s))) :pattern ((s_at %s %s))))",
			i, c.idxSort(), x.leIdx(c.idx(0), i), x.ltIdx(i, x.subIdx(hi, lo)), r, i, a, x.addIdx(lo, i), r, i))
		fr.env[in] = r
	default:
		panic("slice of " + in.X.Type().String())
	}
}

// zero the first n elements of a fresh slice (quantified for unbounded n; skipped for struct elems)
func (x *Exec) zeroSlice(st *State, elem types.Type, s, n string) {
	c := x.c
	if v, ok := bv64(n); (ok && v == 0) || n == "0" {
		return
	}
	x.bulkWrite(st, elem, sx("sl_arr", s), c.idx(0), n, func(i string, lp leafPath, pre map[string]string) string {
		return zeroOfSort(c, lp.sort)
	})
}

func (fr *Frame) chanOp(st *State, what string, pos token.Pos) {
	fr.x.bump(st, "chan:"+what)
	fr.blocking(st, what, pos)
}

func (fr *Frame) selectStmt(st *State, in *ssa.Select) {
	x := fr.x
	c := x.c
	tp := in.Type().(*types.Tuple)
	var vals []string
	for i := 0; i < tp.Len(); i++ {
		v := c.freshConst("sel", c.sortOf(tp.At(i).Type()))
		vals = append(vals, v)
		x.assumeAllocatedDeep(st, tp.At(i).Type(), v)
	}
	// index is within range (or -1 for the default case of a non-blocking select)
	lo := int64(0)
	if !in.Blocking {
		lo = -1
	}
	ii := intInfo{64, true}
	if c.Int {
		c.assume(implies(st.Reach, and(sx("<=", intLit(lo), vals[0]), sx("<", vals[0], intLit(int64(len(in.States)))))))
	} else {
		c.assume(implies(st.Reach, and(sx("bvsle", c.intLit(lo, ii), vals[0]), sx("bvslt", vals[0], c.intLit(int64(len(in.States)), ii)))))
	}
	fr.tup[in] = vals
	ls := &selInfo{idx: vals[0]}
	for i, s := range in.States {
		ls.chans = append(ls.chans, fr.val(s.Chan))
		if c.Int {
			ls.lits = append(ls.lits, intLit(int64(i)))
		} else {
			ls.lits = append(ls.lits, c.intLit(int64(i), ii))
		}
	}
	x.lastSel = ls
	// a send offered by the select is an effect like a call: "callsite select-send:<channel> name: cond" clauses of the
	// function under verification are checked where the send is offered ($0 is the value offered)
	for _, s := range in.States {
		if s.Dir == types.SendOnly && s.Send != nil {
			fr.curSite = in
			// $0 is the value offered, $1 the channel it is offered on
			fr.pseudoCallSpecs(st, "select-send:"+fr.describeValue(s.Chan), []Val{{T: fr.val(s.Send), Ty: s.Send.Type()}, {T: fr.val(s.Chan), Ty: s.Chan.Type()}}, in.Pos())
			x.bump(st, "select-send:"+fr.describeValue(s.Chan))
		}
	}
	if in.Blocking {
		fr.blocking(st, "select", in.Pos())
	}
}

// pseudoCallSpecs checks the top contract's callsite clauses that name an effect which is not a call
func (fr *Frame) pseudoCallSpecs(st *State, key string, args []Val, pos token.Pos) {
	x := fr.x
	top := x.topFrame
	if top == nil || top.ct == nil {
		return
	}
	for _, cs := range top.ct.Calls {
		// "select-send" without a channel name matches every send a select offers (robust against renaming the channel variable)
		if cs.Callee != key && !(cs.Callee == "select-send" && strings.HasPrefix(key, "select-send:")) {
			continue
		}
		x.noteMatched(cs.Clause)
		sc := top.scope(st, top.entry)
		sc.vars = map[string]Val{}
		for i, a := range args {
			sc.vars[fmt.Sprintf("$%d", i)] = a
		}
		sc.localFrame = fr
		sc.at = top.curSite
		nm := cs.Clause.Name
		if nm == "" {
			nm = mangle(key)
		}
		gv, ok := sc.tryEval(cs.Clause.E)
		if !ok || !(gv.K == "bool" || (gv.Ty != nil && isBool(gv.Ty))) {
			x.c.oblige(fmt.Sprintf("%s#call:%s", x.target, nm), "call", x.target, "callsite "+cs.Callee+" "+cs.Clause.Text+"   [does not evaluate against the current code]", fr.pos(pos), st.Reach, "false", nil)
			continue
		}
		x.c.oblige(fmt.Sprintf("%s#call:%s", x.target, nm), "call", x.target, "callsite "+cs.Callee+" "+cs.Clause.Text, fr.pos(pos), st.Reach, gv.T, x.topReqs)
		x.c.assume(implies(st.Reach, gv.T))
	}
}
