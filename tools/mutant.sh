#!/bin/sh
# usage: mutant.sh <Cxx> <patch.diff> [quick|thorough]
# Applies a patch to a scratch copy of /repo's working tree and runs the property check against it.
export GOFLAGS=-mod=mod GOPROXY=off GOSUMDB=off GOTOOLCHAIN=local
d=$(mktemp -d /tmp/govc-mut.XXXXXX)
trap 'rm -rf "$d"' EXIT
rsync -a --exclude .git /repo/ "$d/"
p=$(realpath "$2"); (cd "$d" && patch -p1 -s < "$p") || { echo "patch does not apply"; exit 3; }
/verif/bin/govc check "$1" "${3:-quick}" -repo "$d" -out "$d/.govc-out"
rc=$?
if [ -n "$KEEP" ]; then mkdir -p "$KEEP"; cp -r "$d/.govc-out/." "$KEEP/" 2>/dev/null; fi
exit $rc
