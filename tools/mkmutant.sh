#!/bin/sh
# usage: mkmutant.sh <Cxx> <name> <file-relative-to-repo> <python-expr-old> <python-expr-new>
# Builds a must-fail self-test patch: replaces one occurrence of OLD by NEW in FILE on a scratch copy of /repo's working tree,
# checks that it builds and that the package's tests pass, stores the diff under /verif/selftest/mutants/<Cxx>/<name>.patch
export GOFLAGS=-mod=mod GOPROXY=off GOSUMDB=off GOTOOLCHAIN=local
prop=$1; name=$2; file=$3
d=$(mktemp -d /tmp/mk.XXXXXX); trap 'rm -rf "$d"' EXIT
rsync -a --exclude .git /repo/ "$d/r/"; cp -r "$d/r" "$d/m"
python3 - "$d/m/$file" "$4" "$5" <<'PY' || exit 1
import sys
p,old,new=sys.argv[1:4]; s=open(p).read()
assert s.count(old)==1,("occurrences",s.count(old))
open(p,'w').write(s.replace(old,new))
PY
mkdir -p /verif/selftest/mutants/$prop
(cd "$d" && diff -u "r/$file" "m/$file" | sed "s|^--- r/|--- a/|; s|^+++ m/|+++ b/|" > /verif/selftest/mutants/$prop/$name.patch)
(cd "$d/m" && go build ./... && go test -vet=off -count=1 ./... 2>&1 | grep -v "no test files" | grep -v "^ok" ) 
echo "mutant $prop/$name built and tested"
