#!/usr/bin/env python3
import json, sys, glob
import jsonschema
jsonschema.validate(json.load(open('/verif/MANIFEST.json')), json.load(open('/root/.vp/MANIFEST.schema.json')))
m = json.load(open('/verif/MANIFEST.json'))
for c in m['checks']:
    jsonschema.validate(json.load(open(c['evidence_file'])), json.load(open('/root/.vp/EVIDENCE.schema.json')))
print('schemas ok:', [c['property_id'] for c in m['checks']])
