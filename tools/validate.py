#!/usr/bin/env python3
import json, sys, glob
import jsonschema
jsonschema.validate(json.load(open('/verif/MANIFEST.json')), json.load(open('/root/.vp/MANIFEST.schema.json')))
m = json.load(open('/verif/MANIFEST.json'))
for c in m['checks']:
    jsonschema.validate(json.load(open(c['evidence_file'])), json.load(open('/root/.vp/EVIDENCE.schema.json')))
print('schemas ok:', [c['property_id'] for c in m['checks']])

# ---- audit: every contract that is not trusted/inline must be verified by at least one claim (otherwise it would be
# used as an assumption at call sites without ever being checked)
import re as _re, glob as _glob
_keys = {}
for _f in _glob.glob('/repo/**/contracts_verif.go', recursive=True):
    _cur = None
    for _line in open(_f):
        _m = _re.match(r'//@ func (.+)$', _line.rstrip())
        if _m:
            _cur = _m.group(1).strip(); _keys[_cur] = {'t': False, 's': False}
        elif _cur and _re.match(r'//@\s+(trusted|inline)\b', _line): _keys[_cur]['t'] = True
        elif _cur and _re.match(r'//@\s+(requires|ensures|modifies|callsite|loop)', _line): _keys[_cur]['s'] = True
_claimed = set()
for _f in _glob.glob('/verif/claims/C*.json'):
    _claimed |= set(json.load(open(_f))['functions'])
_orphans = [k for k, v in sorted(_keys.items()) if not v['t'] and v['s'] and k not in _claimed and '@' not in k]
if _orphans:
    print("contracts verified by no claim:", _orphans); sys.exit(1)
print("audit ok: every non-trusted contract is verified by some claim")
