#!/bin/sh
# usage: confirm_seed2.sh <Cxx> <variant-letter>   confirm a seeded change from /tmp/seed2/out/<Cxx> against the current /repo tree
# and store it as /verif/seeded/<Cxx>-<variant>/ (patch.diff, demo_test.go, meta.json with the confirmation)
export GOFLAGS=-mod=mod GOPROXY=off GOSUMDB=off GOTOOLCHAIN=local
id=$1; v=$2; src=${SEEDSRC:-/tmp/seed2/out}/$id
d=$(mktemp -d /tmp/confirm.XXXXXX); trap 'rm -rf "$d"' EXIT
rsync -a --exclude .git /repo/ "$d/p/"; rsync -a --exclude .git /repo/ "$d/m/"
at=$(jq -r .demo_placed_at "$src/meta.json"); cmd=$(jq -r .demo_cmd "$src/meta.json")
(cd "$d/m" && patch -p1 -s < "$src/patch.diff") || { echo "$id: patch does not apply"; exit 1; }
cp "$src/demo_test.go" "$d/p/$at"
(cd "$d/p" && eval "$cmd" >"$d/p.log" 2>&1); e1=$?
(cd "$d/m" && go build ./... >"$d/b.log" 2>&1); e2=$?
(cd "$d/m" && go test -vet=off -count=1 ./... >"$d/t.log" 2>&1); e3=$?
cp "$src/demo_test.go" "$d/m/$at"
(cd "$d/m" && eval "$cmd" >"$d/m.log" 2>&1); e4=$?
echo "$id-$v: demo_on_current=$e1 build=$e2 suite=$e3 demo_with_change=$e4"
if [ $e1 -eq 0 ] && [ $e2 -eq 0 ] && [ $e3 -eq 0 ] && [ $e4 -ne 0 ]; then
  out=/verif/seeded/$id-$v; mkdir -p "$out"; cp "$src/patch.diff" "$src/demo_test.go" "$out/"
  jq --arg id "$id-$v" --arg c "$(git -C /repo rev-parse --short HEAD)" --argjson e1 $e1 --argjson e2 $e2 --argjson e3 $e3 --argjson e4 $e4 \
    '. + {id:$id, confirmed:true, confirmation:{worktree_commit:($c+" (repaired tree)"), demo_on_pristine_exit:$e1, build_with_change_exit:$e2, existing_suite_with_change_exit:$e3, demo_with_change_exit:$e4, demo_placed_at:.demo_placed_at, demo_cmd:.demo_cmd}}' "$src/meta.json" > "$out/meta.json"
  echo "   kept as $out"
else
  echo "   NOT confirmed"; tail -5 "$d/p.log" "$d/t.log" | cut -c1-200
fi
