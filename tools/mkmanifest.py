#!/usr/bin/env python3
"""Regenerate /verif/MANIFEST.json from claims/*.json (claimed properties) and tools/na.json (not applicable)."""
import json, os, glob, subprocess
V = '/verif'
props = [json.loads(l)['id'] for l in open(f'{V}/properties.jsonl')]
na = json.load(open(f'{V}/tools/na.json'))
checks = []
claimed = []
for p in props:
    f = f'{V}/claims/{p}.json'
    if not os.path.exists(f):
        continue
    c = json.load(open(f))
    if c.get('disabled'):
        continue
    claimed.append(p)
    checks.append({
        "property_id": p,
        "quick_cmd": f"/verif/check {p} quick",
        "thorough_cmd": f"/verif/check {p} thorough",
        "evidence_file": f"/verif/evidence/{p}.json",
        "replay_cmd_template": "/verif/check replay {path}",
        "engine": "govc",
        "level_claimed": {"category": "proof", "text": c.get("level_text", ""), "design_ref": c.get("design_ref", "DESIGN.md section 6 (design) and 11.4 (as built), " + p)},
        "level_note": c.get("level_note", ""),
        "technique": c.get("technique", "contract-based deductive verification: weakest-precondition VCs over go/ssa of the real code, discharged by z3/cvc5"),
    })
hooks_commits = []
try:
    out = subprocess.run(['git', '-C', '/repo', 'log', '--format=%H %s'], capture_output=True, text=True).stdout
    for l in out.splitlines():
        h, s = l.split(' ', 1)
        if s.startswith('verif:'):
            hooks_commits.append(h)
except Exception:
    pass
m = {
 "version": 1,
 "setup_cmd": "cd /verif/govc && GOFLAGS=-mod=mod GOPROXY=off GOSUMDB=off GOTOOLCHAIN=local go build -o /verif/bin/govc ./cmd/govc",
 "hooks": {"guard": "verif",
           "enable": "build tag 'verif': the hooks are comment-only contract files (contracts_verif.go, //go:build verif) next to the code; govc reads them from disk, no build of /repo needs the tag",
           "baseline_off_cmd": "cd /repo && GOFLAGS=-mod=mod GOPROXY=off GOSUMDB=off GOTOOLCHAIN=local go test -vet=off -count=1 -timeout 25m ./...",
           "source_commits": hooks_commits, "add_only": True},
 "engines": [{"name": "govc", "path": "/verif/govc", "serves_properties": claimed,
              "kind_free_text": "weakest-precondition VC generator over go/ssa of /repo's working tree; contracts in //@ comment files; obligations discharged by z3 5.1.0 / z3 4.8.12 / cvc5 1.0.3 (portfolio)"}],
 "checks": checks,
 "not_applicable": [{"property_id": p, "reason": na.get(p, "check not built yet (construction in progress; DESIGN.md section 10)")} for p in props if p not in claimed],
 "notes": "Contract-based deductive verification of the real Go code. See DESIGN.md. Exit codes: 0 all claimed obligations discharged; 1 with VIOLATION lines; 2 engine/usage error.",
}
json.dump(m, open(f'{V}/MANIFEST.json', 'w'), indent=1)
print('claimed:', claimed)
