#!/usr/bin/env python3
"""Run every kept seeded change (/verif/seeded/<id>/) against the property checks on a scratch copy of /repo's working
tree and record what each check reported.  usage: seeded_sweep.py [-j N] [ids...]
For each change the property's own check runs first; if it does not report a violation, every other claimed check is
tried. Results go to /verif/seeded/RESULTS.json and into each meta.json under "verif_result"."""
import json, os, subprocess, sys, concurrent.futures, re, glob
V='/verif'
def patch_of(d):
    p=os.path.join(d,'patch.fixed-tree.diff')
    return p if os.path.exists(p) else os.path.join(d,'patch.diff')
def run(prop, patch):
    r=subprocess.run([V+"/tools/mutant.sh",prop,patch,"quick"],capture_output=True,text=True,env=dict(os.environ,GOVC_EXPECT_VIOLATION="1"))
    viol=[re.sub(r'.*/replays/[^/]*/','',l.split('replay=')[1]).strip() for l in r.stdout.splitlines() if l.startswith('VIOLATION')]
    summary=[l for l in r.stdout.splitlines() if ' quick: ' in l]
    return {'check':prop,'exit':r.returncode,'violations':viol,'summary':summary[-1] if summary else r.stdout.strip()[-200:]}
def one(sid):
    d=os.path.join(V,'seeded',sid); prop=sid.split('-')[0]; patch=patch_of(d)
    res=[run(prop,patch)]
    if res[0]['exit']==3:
        return sid,{'patch':os.path.basename(patch),'applies':False,'runs':res,'detected_by':[]}
    if not res[0]['violations'] and not OWN_ONLY:
        claimed=sorted(os.path.basename(f)[:-5] for f in glob.glob(V+'/claims/C*.json'))
        for p in claimed:
            if p!=prop: res.append(run(p,patch))
    det=[r['check'] for r in res if r['violations']]
    return sid,{'patch':os.path.basename(patch),'applies':True,'runs':[r for r in res if r['violations'] or r['check']==prop],'detected_by':det}
OWN_ONLY=False
def main():
    global OWN_ONLY
    args=sys.argv[1:]; j=4
    if '--own-only' in args: OWN_ONLY=True; args.remove('--own-only')
    if args[:1]==['-j']: j=int(args[1]); args=args[2:]
    ids=args or sorted(os.listdir(V+'/seeded'))
    ids=[i for i in ids if os.path.isdir(os.path.join(V,'seeded',i))]
    out={}
    rp=V+'/seeded/RESULTS.json'
    if os.path.exists(rp) and args: out=json.load(open(rp))
    with concurrent.futures.ThreadPoolExecutor(j) as ex:
        for sid,r in ex.map(one,ids):
            out[sid]=r
            m=os.path.join(V,'seeded',sid,'meta.json'); meta=json.load(open(m))
            meta['verif_result']={'ran':'tools/mutant.sh %s seeded/%s/%s quick (scratch copy of the fixed /repo tree)'%(sid.split('-')[0],sid,r['patch']),
              'detected_by':r['detected_by'],'obligations_reported':{x['check']:x['violations'][:6] for x in r['runs'] if x['violations']},'missed_by_own_check':sid.split('-')[0] not in r['detected_by']}
            json.dump(meta,open(m,'w'),indent=1)
            print(sid,'detected by',r['detected_by'] or 'NOTHING',flush=True)
    json.dump(out,open(rp,'w'),indent=1,sort_keys=True)
main()
