#!/bin/bash
# usage: confirm_seed.sh <Cxx> <A|B>
# Confirms a seeded change in a scratch worktree of the pinned commit: demo passes without the change; with it the tree
# builds, the existing suite passes and the demo fails. Writes /verif/seeded/<Cxx>-<V>/ (patch.diff, demo, meta.json).
export GOFLAGS=-mod=mod GOPROXY=off GOSUMDB=off GOTOOLCHAIN=local
P=$1; V=$2; SRC=/tmp/seed/out/$P
WT=$(mktemp -d /tmp/cs.XXXXXX); rmdir $WT
git -C /repo worktree add --detach $WT c98513b >/dev/null 2>&1 || exit 3
trap 'git -C /repo worktree remove --force $WT >/dev/null 2>&1' EXIT
demo=$SRC/${V}_demo_test.go
place=$(head -1 $demo | sed 's|^// place at: *||')
run=$(sed -n 2p $demo | sed 's|^// run: *||')
out=/verif/seeded/$P-$V; mkdir -p $out
cp $SRC/$V.patch.diff $out/patch.diff; cp $demo $out/demo_test.go
cd $WT
cp $demo $place
r1=$(eval "$run" 2>&1); s1=$?
rm -f $place
git apply $SRC/$V.patch.diff 2>&1 || { echo "$P $V: patch does not apply"; exit 4; }
b=$(go build ./... 2>&1); sb=$?
t=$(go test -vet=off -count=1 ./... 2>&1); st=$?
cp $demo $place
r2=$(eval "$run" 2>&1); s2=$?
ok=false; [ $s1 -eq 0 ] && [ $sb -eq 0 ] && [ $st -eq 0 ] && [ $s2 -ne 0 ] && ok=true
python3 - "$P" "$V" "$ok" "$s1" "$sb" "$st" "$s2" "$run" "$place" <<'PY'
import json,sys
P,V,ok,s1,sb,st,s2,run,place=sys.argv[1:]
meta=json.load(open(f'/tmp/seed/out/{P}/{V}.meta.json'))
meta.update({"id":f"{P}-{V}","confirmed":ok=="true","confirmation":{"worktree_commit":"c98513b (pinned tree, before any fix: commit)","demo_on_pristine_exit":int(s1),"build_with_change_exit":int(sb),"existing_suite_with_change_exit":int(st),"demo_with_change_exit":int(s2),"demo_placed_at":place,"demo_cmd":run}})
json.dump(meta,open(f'/verif/seeded/{P}-{V}/meta.json','w'),indent=1)
print(P,V,"confirmed" if ok=="true" else "NOT CONFIRMED",s1,sb,st,s2)
PY
