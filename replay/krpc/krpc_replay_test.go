package krpc

import (
	"bytes"
	"testing"
)

// Oracle from property C15: the element decoders never panic; a compact address decodes from >= 2 bytes as
// IP = all but the last two bytes, port = the last two big-endian; a compact node needs its 20-byte ID in front.
func TestGovcReplayKrpc(t *testing.T) {
	m := govcLoad()
	mv := m.Model
	n := int(govcInt(mv["len:b"]))
	if n < 0 || n > 48 {
		t.Skip("GOVC-REPLAY-SKIP: input longer than the 48 bytes the model describes")
	}
	b := append([]byte{}, govcBytes(mv["bytes:b"], 48)[:n]...)
	switch m.Function {
	case "(*dht/krpc.NodeAddr).UnmarshalBinary":
		var na NodeAddr
		err := na.UnmarshalBinary(b)
		if (n < 2) != (err != nil) {
			t.Fatalf("NodeAddr.UnmarshalBinary(%d bytes) error = %v", n, err)
		}
		if err == nil && (!bytes.Equal(na.IP, b[:n-2]) || na.Port != int(b[n-2])<<8|int(b[n-1])) {
			t.Fatalf("NodeAddr.UnmarshalBinary(%x) = %v:%d", b, []byte(na.IP), na.Port)
		}
	case "(*dht/krpc.NodeInfo).UnmarshalBinary":
		var ni NodeInfo
		err := ni.UnmarshalBinary(b) // must not panic for any length
		if (n < 22) != (err != nil) {
			t.Fatalf("NodeInfo.UnmarshalBinary(%d bytes) error = %v, want an error exactly below 22 bytes", n, err)
		}
	default:
		t.Skip("GOVC-REPLAY-SKIP: no replay for " + m.Function)
	}
}
