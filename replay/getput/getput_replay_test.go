package getput

import (
	"bytes"
	"context"
	"crypto/sha1"
	"errors"
	"net"
	"runtime"
	"strings"
	"testing"
	"time"

	"github.com/anacrolix/dht/v2/bep44"

	"github.com/anacrolix/dht/v2"
	"github.com/anacrolix/dht/v2/krpc"
	"github.com/anacrolix/torrent/bencode"
	"golang.org/x/time/rate"
)

// A network of one hostile node: it answers every `get` with a reply whose key and salt hash to the requested target
// but which carries no `seq` (and a junk signature). Property C01 / C12: whatever remote nodes reply, the client must
// neither crash nor hand the caller an unverified value.
type govcNet struct {
	in     chan govcPkt
	closed chan struct{}
	key    [32]byte
	seq    *int64
}

type govcPkt struct {
	b    []byte
	from net.Addr
}

func (c *govcNet) ReadFrom(p []byte) (int, net.Addr, error) {
	select {
	case k := <-c.in:
		return copy(p, k.b), k.from, nil
	case <-c.closed:
		return 0, nil, net.ErrClosed
	}
}

func (c *govcNet) WriteTo(b []byte, a net.Addr) (int, error) {
	var m krpc.Msg
	if err := bencode.Unmarshal(b, &m); err == nil && m.Y == "q" {
		tok := "tok"
		r := krpc.Msg{T: m.T, Y: "r", R: &krpc.Return{Token: &tok}}
		r.R.ID[0] = 0x42
		if m.Q == "get" {
			r.R.K = c.key
			r.R.V = bencode.Bytes("5:hello")
			r.R.Seq = c.seq
		}
		select {
		case c.in <- govcPkt{bencode.MustMarshal(r), a}:
		default:
		}
	}
	return len(b), nil
}
func (c *govcNet) Close() error {
	select {
	case <-c.closed:
	default:
		close(c.closed)
	}
	return nil
}
func (c *govcNet) LocalAddr() net.Addr                { return &net.UDPAddr{IP: net.IPv4(127, 0, 0, 1), Port: 4242} }
func (c *govcNet) SetDeadline(time.Time) error      { return nil }
func (c *govcNet) SetReadDeadline(time.Time) error  { return nil }
func (c *govcNet) SetWriteDeadline(time.Time) error { return nil }

func TestGovcReplayGetput(t *testing.T) {
	m := govcLoad()
	_ = m
	salt := []byte("salt")
	nw := &govcNet{in: make(chan govcPkt, 16), closed: make(chan struct{})}
	for i := range nw.key {
		nw.key[i] = byte(i + 1)
	}
	target := sha1.Sum(append(nw.key[:], salt...))
	cfg := dht.NewDefaultServerConfig()
	cfg.Conn = nw
	cfg.SendLimiter = rate.NewLimiter(rate.Inf, 10)
	peer := dht.NewAddr(&net.UDPAddr{IP: net.IPv4(203, 0, 113, 9), Port: 6881})
	cfg.StartingNodes = func() ([]dht.Addr, error) { return []dht.Addr{peer}, nil }
	s, err := dht.NewServer(cfg)
	if err != nil {
		t.Fatal(err)
	}
	defer s.Close()
	ctx, cancel := context.WithTimeout(context.Background(), 3*time.Second)
	defer cancel()
	// the reply has the right key and salt but no seq and a junk signature: it must be ignored, not crash the process
	res, _, err := Get(ctx, target, s, nil, salt)
	if err == nil {
		t.Fatalf("an unverifiable reply was handed to the caller: %+v", res)
	}
}

// Replay of a failed "the lookup started is stopped on every path" obligation of Get / Put (C14): the path where the
// starting nodes cannot be obtained.
func TestGovcReplayGetputStop(t *testing.T) {
	m := govcLoad()
	nw := &govcNet{in: make(chan govcPkt, 16), closed: make(chan struct{})}
	cfg := dht.NewDefaultServerConfig()
	cfg.Conn = nw
	cfg.StartingNodes = func() ([]dht.Addr, error) { return nil, errors.New("no network") }
	s, err := dht.NewServer(cfg)
	if err != nil {
		t.Fatal(err)
	}
	defer s.Close()
	loops := func() int {
		buf := make([]byte, 1<<20)
		buf = buf[:runtime.Stack(buf, true)]
		return bytes.Count(buf, []byte("traversal.(*Operation).run("))
	}
	before := loops()
	var target [20]byte
	for i := 0; i < 5; i++ {
		ctx, cancel := context.WithTimeout(context.Background(), time.Second)
		if strings.HasSuffix(m.Function, ".Put") {
			_, err = Put(ctx, target, s, nil, func(int64) bep44.Put { return bep44.Put{V: "x"} })
		} else {
			_, _, err = Get(ctx, target, s, nil, nil)
		}
		cancel()
		if err == nil {
			t.Fatal("GOVC-REPLAY-SKIP: unexpectedly succeeded")
		}
	}
	for i := 0; i < 50 && loops() > before; i++ {
		time.Sleep(20 * time.Millisecond)
	}
	if n := loops() - before; n > 0 {
		t.Fatalf("%d lookup goroutines are still running after 5 failed calls: the lookups were never stopped", n)
	}
}
