package int160

import (
	"math/big"
	"testing"
)

// Oracle written from property C18: Cmp orders IDs as unsigned 160-bit integers; Xor is the
// bytewise exclusive or; GetBit/SetBit address bit i counted from the most significant bit.
func TestGovcReplayInt160(t *testing.T) {
	m := govcLoad()
	mv := m.Model
	id := func(label string) T {
		var x T
		copy(x.bits[:], govcBytes(mv[label], 20))
		return x
	}
	switch m.Function {
	case "(dht/int160.T).Cmp":
		l, r := id("param:l"), id("param:r")
		want := new(big.Int).SetBytes(l.bits[:]).Cmp(new(big.Int).SetBytes(r.bits[:]))
		if got := l.Cmp(r); got != want {
			t.Fatalf("Cmp(%x, %x) = %d, unsigned 160-bit comparison gives %d", l.bits, r.bits, got, want)
		}
	case "(*dht/int160.T).Xor", "dht/int160.Distance", "(dht/int160.T).Distance":
		a, b := id("deref:a"), id("deref:b")
		if m.Function != "(*dht/int160.T).Xor" {
			a, b = id("param:a"), id("param:b")
		}
		var got T
		got.Xor(&a, &b)
		for i := range got.bits {
			if got.bits[i] != a.bits[i]^b.bits[i] {
				t.Fatalf("Xor(%x, %x) = %x: byte %d is not the exclusive or", a.bits, b.bits, got.bits, i)
			}
		}
		if d := Distance(a, b); d != got {
			t.Fatalf("Distance differs from Xor")
		}
	case "(*dht/int160.T).GetBit":
		x := id("deref:me")
		idx := int(govcInt(mv["param:index"]))
		if idx < 0 || idx >= 160 {
			t.Skip("GOVC-REPLAY-SKIP: index outside precondition")
		}
		want := new(big.Int).SetBytes(x.bits[:]).Bit(159-idx) == 1
		if got := x.GetBit(idx); got != want {
			t.Fatalf("GetBit(%x, %d) = %v, bit %d from the most significant end is %v", x.bits, idx, got, idx, want)
		}
	case "(*dht/int160.T).SetBit":
		x := id("deref:me")
		idx := int(govcInt(mv["param:index"]))
		val := govcBool(mv["param:val"])
		if idx < 0 || idx >= 160 {
			t.Skip("GOVC-REPLAY-SKIP: index outside precondition")
		}
		w := new(big.Int).SetBytes(x.bits[:])
		if val {
			w.SetBit(w, 159-idx, 1)
		} else {
			w.SetBit(w, 159-idx, 0)
		}
		var want T
		w.FillBytes(want.bits[:])
		x.SetBit(idx, val)
		if x != want {
			t.Fatalf("SetBit(%d,%v) gave %x, want %x", idx, val, x.bits, want.bits)
		}
	case "(*dht/int160.T).IsZero":
		x := id("deref:me")
		if got, want := x.IsZero(), new(big.Int).SetBytes(x.bits[:]).Sign() == 0; got != want {
			t.Fatalf("IsZero(%x) = %v", x.bits, got)
		}
	default:
		t.Skip("GOVC-REPLAY-SKIP: no replay for " + m.Function)
	}
}
