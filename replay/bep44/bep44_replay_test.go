package bep44

import (
	"bytes"
	"crypto/ed25519"
	"strings"
	"testing"
	"time"

	"github.com/anacrolix/dht/v2/krpc"
	"github.com/anacrolix/torrent/bencode"
)

// Oracle written from property C13 / BEP 44: expected KRPC error code (0 = accepted) when `incoming`
// is put over `stored`.
func govcIncomingCode(stored, incoming *Item) int {
	same := bytes.Equal(bencode.MustMarshal(stored.V), bencode.MustMarshal(incoming.V))
	switch {
	case stored.Seq > incoming.Seq:
		return 302
	case stored.Seq == incoming.Seq:
		if same {
			return 0
		}
		return 302
	}
	if incoming.Cas != 0 && incoming.Cas != stored.Seq {
		return 301
	}
	return 0
}

func govcCode(err error) int {
	if err == nil {
		return 0
	}
	if ke, ok := err.(krpc.Error); ok {
		return ke.Code
	}
	return -1
}

func TestGovcReplayBep44(t *testing.T) {
	m := govcLoad()
	mv := m.Model
	item := func(name string, v interface{}) *Item {
		it := &Item{V: v}
		it.Seq = govcInt(mv["*"+name+".Seq"])
		it.Cas = govcInt(mv["*"+name+".Cas"])
		copy(it.K[:], govcBytes(mv["*"+name+".K"], 32))
		return it
	}
	switch m.Function {
	case "dht/bep44.CheckIncoming":
		// the model leaves the values abstract: try equal and different values
		for _, vals := range [][2]interface{}{{"a", "a"}, {"a", "b"}} {
			stored, incoming := item("stored", vals[0]), item("incoming", vals[1])
			want := govcIncomingCode(stored, incoming)
			if got := govcCode(CheckIncoming(stored, incoming)); got != want {
				t.Fatalf("CheckIncoming(stored{Seq:%d Cas:%d V:%v}, incoming{Seq:%d Cas:%d V:%v}) gives code %d, BEP 44 / C13 require %d",
					stored.Seq, stored.Cas, stored.V, incoming.Seq, incoming.Cas, incoming.V, got, want)
			}
		}
	case "(*dht/bep44.Wrapper).Put", "(*dht/bep44.Wrapper).Get":
		if !strings.Contains(m.Obligation, "under-lock") {
			t.Skip("GOVC-REPLAY-SKIP: no model replay for " + m.Obligation)
		}
		if strings.Contains(m.Function, "Put") {
			govcInterleavePuts(t)
		} else {
			govcInterleaveGetPut(t)
		}
	default:
		t.Skip("GOVC-REPLAY-SKIP: no replay for " + m.Function)
	}
}

// ---- scheduling harness for the lock-discipline obligations of Wrapper (C13, interleavings) ----
// A store that parks every call until the driver releases it lets the test try the interleavings of
// the store calls of two concurrent operations. It only exhibits a history for an obligation that has
// already failed; it decides nothing.

type govcEvent struct {
	op      string
	who     int64
	release chan struct{}
}

type govcParkStore struct {
	inner *Memory
	ev    chan govcEvent
}

func (s *govcParkStore) park(op string, who int64) {
	r := make(chan struct{})
	s.ev <- govcEvent{op, who, r}
	<-r
}
func (s *govcParkStore) Get(t Target) (*Item, error) { s.park("get", 0); return s.inner.Get(t) }
func (s *govcParkStore) Put(i *Item) error           { s.park("put", i.Seq); return s.inner.Put(i) }
func (s *govcParkStore) Del(t Target) error          { s.park("del", 0); return s.inner.Del(t) }

func govcNext(ev chan govcEvent, d time.Duration) (govcEvent, bool) {
	select {
	case e := <-ev:
		return e, true
	case <-time.After(d):
		return govcEvent{}, false
	}
}

func govcDrain(ev chan govcEvent, done chan error, n int) {
	for n > 0 {
		select {
		case e := <-ev:
			close(e.release)
		case <-done:
			n--
		case <-time.After(5 * time.Second):
			return
		}
	}
}

func govcSigned(t *testing.T, priv ed25519.PrivateKey, seq int64, v string) *Item {
	it, err := NewItem(v, []byte("salt"), seq, 0, priv)
	if err != nil {
		t.Fatal(err)
	}
	return it
}

// two concurrent puts (seq 5 and seq 4) over a stored seq 3: if both look-ups can happen before either write,
// the writes can be ordered 5 then 4, and the stored sequence number goes down although put(5) was accepted.
func govcInterleavePuts(t *testing.T) {
	_, priv, _ := ed25519.GenerateKey(nil)
	inner := NewMemory()
	if err := NewWrapper(inner, time.Hour).Put(govcSigned(t, priv, 3, "v3")); err != nil {
		t.Fatal(err)
	}
	ps := &govcParkStore{inner: inner, ev: make(chan govcEvent)}
	w := NewWrapper(ps, time.Hour)
	a, b := govcSigned(t, priv, 5, "v5"), govcSigned(t, priv, 4, "v4")
	done := make(chan error, 2)
	errA := make(chan error, 1)
	go func() { e := w.Put(a); errA <- e; done <- e }()
	g1, ok := govcNext(ps.ev, 2*time.Second)
	if !ok {
		t.Skip("GOVC-REPLAY-SKIP: first put never reached the store")
	}
	go func() { done <- w.Put(b) }()
	g2, ok := govcNext(ps.ev, 300*time.Millisecond)
	if !ok {
		// the second put cannot reach the store while the first is inside: serialised
		close(g1.release)
		govcDrain(ps.ev, done, 2)
		return
	}
	close(g1.release)
	close(g2.release)
	var puts []govcEvent
	for len(puts) < 2 {
		e, ok := govcNext(ps.ev, 2*time.Second)
		if !ok {
			break
		}
		if e.op == "put" {
			puts = append(puts, e)
		} else {
			close(e.release)
		}
	}
	// release the write of seq 5 first, then the write of seq 4
	for _, want := range []int64{5, 4} {
		for _, e := range puts {
			if e.who == want {
				close(e.release)
				<-done
			}
		}
	}
	accepted5 := <-errA == nil
	got, err := inner.Get(a.Target())
	if err != nil {
		t.Fatal(err)
	}
	if accepted5 && got.Seq < 5 {
		t.Fatalf("history: put(seq 5) and put(seq 4) both looked up stored seq 3, then wrote 5 and 4 in that order: put(seq 5) was accepted but the stored sequence number is now %d (it decreased)", got.Seq)
	}
}

// an expiring get and a concurrent put: the get sees the expired item, the put stores a fresh one, then the
// get's delete removes the freshly accepted item.
func govcInterleaveGetPut(t *testing.T) {
	_, priv, _ := ed25519.GenerateKey(nil)
	inner := NewMemory()
	old := govcSigned(t, priv, 1, "old")
	if err := NewWrapper(inner, time.Millisecond).Put(old); err != nil {
		t.Fatal(err)
	}
	time.Sleep(20 * time.Millisecond)
	ps := &govcParkStore{inner: inner, ev: make(chan govcEvent)}
	w := NewWrapper(ps, time.Millisecond)
	done := make(chan error, 2)
	go func() { _, e := w.Get(old.Target()); done <- e }()
	g, ok := govcNext(ps.ev, 2*time.Second)
	if !ok {
		t.Skip("GOVC-REPLAY-SKIP: get never reached the store")
	}
	close(g.release)
	d, ok := govcNext(ps.ev, 2*time.Second) // the delete of the expired item, parked
	if !ok || d.op != "del" {
		t.Skip("GOVC-REPLAY-SKIP: the expired item was not deleted")
	}
	fresh := govcSigned(t, priv, 2, "fresh")
	putErr := make(chan error, 1)
	go func() { e := w.Put(fresh); putErr <- e; done <- e }()
	for steps := 0; steps < 2; steps++ {
		e, ok := govcNext(ps.ev, 300*time.Millisecond)
		if !ok {
			// the put cannot reach the store while the get is inside: serialised
			close(d.release)
			govcDrain(ps.ev, done, 2)
			return
		}
		close(e.release)
	}
	accepted := <-putErr == nil
	close(d.release)
	govcDrain(ps.ev, done, 2)
	if _, err := inner.Get(fresh.Target()); accepted && err != nil {
		t.Fatalf("history: get saw the expired item, put(seq 2) was accepted, then the get's delete ran: the accepted item is gone (%v)", err)
	}
}
