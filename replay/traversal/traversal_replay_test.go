package traversal

import (
	"context"
	"net/netip"
	"strings"
	"sync"
	"testing"
	"time"

	"github.com/anacrolix/dht/v2/int160"
	"github.com/anacrolix/dht/v2/krpc"
	"github.com/anacrolix/dht/v2/types"
	"github.com/anacrolix/generics"
)

// Replays of failed traversal obligations (C04). The failing input is the history the obligation's model describes: a
// frontier that holds one address under several IDs (what a single hostile reply produces). The oracle is the property
// statement itself: no address is queried more than once, at most Alpha queries are in flight, filtered addresses are
// never asked.
func TestGovcReplayTraversal(t *testing.T) {
	m := govcLoad()
	victim := netip.MustParseAddrPort("203.0.113.7:6881")
	var mu sync.Mutex
	asked := map[string]int{}
	inflight, maxInflight := 0, 0
	const alpha = 3
	op := Start(OperationInput{
		Alpha: alpha,
		K:     8,
		DoQuery: func(ctx context.Context, addr krpc.NodeAddr) (res QueryResult) {
			mu.Lock()
			asked[addr.String()]++
			inflight++
			if inflight > maxInflight {
				maxInflight = inflight
			}
			mu.Unlock()
			time.Sleep(5 * time.Millisecond)
			mu.Lock()
			inflight--
			mu.Unlock()
			return
		},
		NodeFilter: func(n types.AddrMaybeId) bool { return n.Addr.Port() != 1 },
	})
	var nodes []types.AddrMaybeId
	for i := 0; i < 8; i++ {
		var id [20]byte
		id[0] = byte(i + 1)
		nodes = append(nodes, types.AddrMaybeId{Addr: krpc.NodeAddrPort{AddrPort: victim}, Id: generics.Some(int160.FromByteArray(id))})
	}
	nodes = append(nodes, types.AddrMaybeId{Addr: krpc.NodeAddrPort{AddrPort: netip.MustParseAddrPort("203.0.113.8:1")}})
	op.AddNodes(nodes)
	select {
	case <-op.Stalled():
	case <-time.After(5 * time.Second):
		t.Fatal("the lookup did not stall")
	}
	op.Stop()
	<-op.Stopped()
	mu.Lock()
	defer mu.Unlock()
	switch {
	case strings.Contains(m.Obligation, "no-address-is-queried-twice"), strings.Contains(m.Obligation, "only-addresses-not-yet-queried"):
		for a, n := range asked {
			if n > 1 {
				t.Fatalf("address %s was queried %d times (listed under %d IDs)", a, n, 8)
			}
		}
	case strings.Contains(m.Obligation, "fan-out"):
		if maxInflight > alpha {
			t.Fatalf("%d queries in flight with Alpha = %d", maxInflight, alpha)
		}
	case strings.Contains(m.Obligation, "filter"):
		for a := range asked {
			if strings.HasSuffix(a, ":1") {
				t.Fatalf("address %s was rejected by the node filter and queried all the same", a)
			}
		}
	default:
		panic("GOVC-REPLAY-SKIP: no scenario for " + m.Obligation)
	}
}
