package dht

import (
	"net"
	"strings"
	"sync"
	"testing"
	"time"

	"github.com/anacrolix/dht/v2/krpc"
	"github.com/anacrolix/torrent/bencode"
	"golang.org/x/time/rate"
)

// A PacketConn that records what the server writes and never delivers anything.
type govcConn struct {
	mu     sync.Mutex
	writes []govcWrite
	closed chan struct{}
}

type govcWrite struct {
	b  []byte
	to net.Addr
}

func newGovcConn() *govcConn { return &govcConn{closed: make(chan struct{})} }

func (c *govcConn) ReadFrom(p []byte) (int, net.Addr, error) {
	<-c.closed
	return 0, nil, net.ErrClosed
}
func (c *govcConn) WriteTo(p []byte, a net.Addr) (int, error) {
	c.mu.Lock()
	defer c.mu.Unlock()
	c.writes = append(c.writes, govcWrite{append([]byte{}, p...), a})
	return len(p), nil
}
func (c *govcConn) Close() error {
	select {
	case <-c.closed:
	default:
		close(c.closed)
	}
	return nil
}
func (c *govcConn) LocalAddr() net.Addr                { return &net.UDPAddr{IP: net.IPv4(127, 0, 0, 1), Port: 4242} }
func (c *govcConn) SetDeadline(time.Time) error      { return nil }
func (c *govcConn) SetReadDeadline(time.Time) error  { return nil }
func (c *govcConn) SetWriteDeadline(time.Time) error { return nil }
func (c *govcConn) snapshot() []govcWrite {
	c.mu.Lock()
	defer c.mu.Unlock()
	return append([]govcWrite{}, c.writes...)
}

func govcServer(t *testing.T, passive bool) (*Server, *govcConn) {
	conn := newGovcConn()
	cfg := NewDefaultServerConfig()
	cfg.Conn = conn
	cfg.Passive = passive
	cfg.StartingNodes = func() ([]Addr, error) { return nil, nil }
	cfg.SendLimiter = rate.NewLimiter(rate.Inf, 10)
	s, err := NewServer(cfg)
	if err != nil {
		t.Fatal(err)
	}
	t.Cleanup(s.Close)
	return s, conn
}

func govcString(mv map[string]string, label string) string {
	n := int(govcInt(mv["len:"+label]))
	if n < 0 || n > 48 {
		n = 0
	}
	b := govcBytes(mv["bytes:"+label], 48)
	return string(b[:n])
}

// Oracle for a single inbound query, written from properties C08 / C10 / C19: at most one datagram, to the
// source, echoing t; none when passive; 203 when a method that needs arguments has none; 204 for unknown methods;
// nothing for announce_peer / put without a valid token (other than the 203 of a missing argument dict).
func govcCheckQuery(t *testing.T, passive bool, m krpc.Msg) {
	s, conn := govcServer(t, passive)
	src := NewAddr(&net.UDPAddr{IP: net.IPv4(203, 0, 113, 7), Port: 6881})
	func() {
		s.mu.Lock()
		defer s.mu.Unlock()
		s.handleQuery(src, m)
	}()
	time.Sleep(150 * time.Millisecond)
	ws := conn.snapshot()
	if len(ws) > 1 {
		t.Fatalf("query %q: %d datagrams sent, at most one allowed", m.Q, len(ws))
	}
	if passive && len(ws) != 0 {
		t.Fatalf("query %q: a passive node sent a datagram", m.Q)
	}
	needs := map[string]bool{"find_node": true, "get_peers": true, "announce_peer": true, "put": true, "get": true}
	for _, w := range ws {
		if w.to.String() != src.String() {
			t.Fatalf("query %q: datagram sent to %v, the query came from %v", m.Q, w.to, src)
		}
		var out krpc.Msg
		if err := bencode.Unmarshal(w.b, &out); err != nil {
			t.Fatalf("query %q: sent datagram does not decode: %v", m.Q, err)
		}
		if out.T != m.T {
			t.Fatalf("query %q: reply carries t=%q, the query had t=%q", m.Q, out.T, m.T)
		}
		if needs[m.Q] && m.A == nil && (out.Y != "e" || out.E == nil || out.E.Code != 203) {
			t.Fatalf("query %q without arguments: expected error 203, got y=%q e=%v", m.Q, out.Y, out.E)
		}
		if !needs[m.Q] && m.Q != "ping" && (out.Y != "e" || out.E == nil || out.E.Code != 204) {
			t.Fatalf("unknown method %q: expected error 204, got y=%q e=%v", m.Q, out.Y, out.E)
		}
	}
	if !passive && len(ws) == 0 {
		tokened := m.Q == "announce_peer" || m.Q == "put"
		if !tokened || m.A == nil {
			t.Fatalf("query %q (arguments present: %v): no datagram was sent in reply", m.Q, m.A != nil)
		}
	}
}

func TestGovcReplayServer(t *testing.T) {
	m := govcLoad()
	mv := m.Model
	switch {
	case strings.HasSuffix(m.Function, ").handleQuery"):
		q := govcString(mv, "m.Q")
		msg := krpc.Msg{Q: q, T: govcString(mv, "m.T"), Y: "q"}
		if !govcBool(mv["m.A:isnil"]) {
			msg.A = &krpc.MsgArgs{}
			copy(msg.A.ID[:], govcBytes(mv["*m.A.ID"], 20))
			if msg.A.ID == (krpc.ID{}) {
				msg.A.ID[0] = 1
			}
		}
		passive := govcBool(mv["*s.config.Passive"])
		govcCheckQuery(t, passive, msg)
	case strings.HasSuffix(m.Function, ").setReturnNodes"):
		govcScenarioTarget(t)
	case strings.HasSuffix(m.Function, ").setReturnNodes$2"):
		govcScenarioNodes6(t)
	default:
		t.Skip("GOVC-REPLAY-SKIP: no replay for " + m.Function)
	}
}

func govcServerWithID(t *testing.T, id krpc.ID) (*Server, *govcConn) {
	conn := newGovcConn()
	cfg := NewDefaultServerConfig()
	cfg.Conn = conn
	cfg.NodeId = id
	cfg.StartingNodes = func() ([]Addr, error) { return nil, nil }
	cfg.SendLimiter = rate.NewLimiter(rate.Inf, 10)
	s, err := NewServer(cfg)
	if err != nil {
		t.Fatal(err)
	}
	t.Cleanup(s.Close)
	return s, conn
}

func govcAddGoodNode(t *testing.T, s *Server, id krpc.ID, ua *net.UDPAddr) {
	s.mu.Lock()
	defer s.mu.Unlock()
	n := &node{nodeKey: nodeKey{Id: id.Int160(), Addr: NewAddr(ua)}, lastGotResponse: time.Now(), lastGotQuery: time.Now()}
	if err := s.table.addNode(n); err != nil {
		t.Fatal(err)
	}
}

func govcAsk(t *testing.T, s *Server, conn *govcConn, src *net.UDPAddr, m krpc.Msg) krpc.Msg {
	func() {
		s.mu.Lock()
		defer s.mu.Unlock()
		s.handleQuery(NewAddr(src), m)
	}()
	time.Sleep(150 * time.Millisecond)
	ws := conn.snapshot()
	if len(ws) != 1 {
		t.Fatalf("expected one reply, got %d", len(ws))
	}
	var out krpc.Msg
	if err := bencode.Unmarshal(ws[0].b, &out); err != nil || out.R == nil {
		t.Fatalf("reply does not decode as a response: %v", err)
	}
	return out
}

// C09: contacts are chosen relative to the target the query names. The responder's ID starts with bit 1, so the all-zero
// infohash falls into bucket 0; the only good contact sits in bucket 5, which is also the bucket of the find_node target.
func govcScenarioTarget(t *testing.T) {
	var root, nid krpc.ID
	root[0] = 0x80
	nid[0] = 0x84 // shares the first five bits with root
	s, conn := govcServerWithID(t, root)
	govcAddGoodNode(t, s, nid, &net.UDPAddr{IP: net.IPv4(198, 51, 100, 1), Port: 6881})
	q := krpc.Msg{Q: "find_node", T: "tt", Y: "q", A: &krpc.MsgArgs{Target: nid}}
	q.A.ID[0] = 0x11
	out := govcAsk(t, s, conn, &net.UDPAddr{IP: net.IPv4(203, 0, 113, 7), Port: 6881}, q)
	if len(out.R.Nodes) != 1 || out.R.Nodes[0].ID != nid {
		t.Fatalf("find_node for target %x: the good contact in the target's own bucket was not returned (nodes=%v): contacts were not chosen relative to the target", nid[:2], out.R.Nodes)
	}
}

// C09: nodes6 holds only IPv6 contacts. The table holds one good IPv4 contact; an IPv6 requester asks.
func govcScenarioNodes6(t *testing.T) {
	var root, nid krpc.ID
	root[0] = 0x80
	nid[0] = 0x84
	s, conn := govcServerWithID(t, root)
	govcAddGoodNode(t, s, nid, &net.UDPAddr{IP: net.IPv4(198, 51, 100, 1), Port: 6881})
	q := krpc.Msg{Q: "get_peers", T: "tt", Y: "q", A: &krpc.MsgArgs{InfoHash: nid}}
	q.A.ID[0] = 0x11
	out := govcAsk(t, s, conn, &net.UDPAddr{IP: net.ParseIP("2001:db8::7"), Port: 6881}, q)
	for _, ni := range out.R.Nodes6 {
		if ni.Addr.IP.To4() != nil {
			t.Fatalf("nodes6 contains the IPv4 contact %v (as a 38-byte v4-mapped entry)", ni.Addr)
		}
	}
}
