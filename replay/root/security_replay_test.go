package dht

import (
	"hash/crc32"
	"net"
	"testing"

	"github.com/anacrolix/dht/v2/krpc"
)

// Oracle written from BEP 42 (property C17), independent of security.go.
func govcBep42(ip net.IP, r byte) uint32 {
	var b []byte
	if len(ip) == 16 {
		mapped := ip[10] == 0xff && ip[11] == 0xff
		for _, x := range ip[:10] {
			if x != 0 {
				mapped = false
			}
		}
		if mapped {
			ip = ip[12:]
		}
	}
	if len(ip) == 4 {
		b = []byte{ip[0] & 0x03, ip[1] & 0x0f, ip[2] & 0x3f, ip[3] & 0xff}
	} else {
		m := []byte{0x01, 0x03, 0x07, 0x0f, 0x1f, 0x3f, 0x7f, 0xff}
		for i := range m {
			b = append(b, ip[i]&m[i])
		}
	}
	b[0] |= (r & 7) << 5
	return crc32.Checksum(b, crc32.MakeTable(crc32.Castagnoli))
}

func govcExempt(ip net.IP) bool {
	if ip4 := ip.To4(); ip4 != nil {
		return ip4[0] == 10 || (ip4[0] == 172 && ip4[1]&0xf0 == 16) || (ip4[0] == 192 && ip4[1] == 168) || (ip4[0] == 169 && ip4[1] == 254) || ip4[0] == 127
	}
	if len(ip) != 16 {
		return false
	}
	if ip[0] == 0xfe && ip[1]&0xc0 == 0x80 {
		return true
	}
	for _, x := range ip[:15] {
		if x != 0 {
			return false
		}
	}
	return ip[15] == 1
}

func govcFirst21(id [20]byte, crc uint32) bool {
	return (uint32(id[0])<<16|uint32(id[1])<<8|uint32(id[2]))>>3 == crc>>11
}

func TestGovcReplaySecurity(t *testing.T) {
	m := govcLoad()
	mv := m.Model
	ipOf := func(label string) net.IP {
		n := int(govcInt(mv["len:"+label]))
		if n != 4 && n != 16 {
			t.Skip("GOVC-REPLAY-SKIP: IP length outside precondition")
		}
		b := govcBytes(mv["bytes:"+label], 48)
		return net.IP(append([]byte{}, b[:n]...))
	}
	switch m.Function {
	case "dht.crcIP":
		ip := ipOf("ip")
		r := byte(govcInt(mv["param:rand"]))
		if got, want := crcIP(ip, r), govcBep42(ip, r); got != want {
			t.Fatalf("crcIP(%v, %d) = %08x, BEP 42 gives %08x", []byte(ip), r, got, want)
		}
	case "dht.SecureNodeId":
		ip := ipOf("ip")
		var id krpc.ID
		copy(id[:], govcBytes(mv["deref:id"], 20))
		old := id
		SecureNodeId(&id, ip)
		for i := 3; i < 20; i++ {
			if id[i] != old[i] {
				t.Fatalf("SecureNodeId changed byte %d", i)
			}
		}
		if id[2]&7 != old[2]&7 {
			t.Fatalf("SecureNodeId changed the low bits of byte 2")
		}
		if !govcFirst21(id, govcBep42(ip, old[19])) {
			t.Fatalf("SecureNodeId(%x, %v) = %x: first 21 bits are not those of the BEP 42 CRC", old, []byte(ip), id)
		}
	case "dht.NodeIdSecure":
		ip := ipOf("ip")
		var id [20]byte
		copy(id[:], govcBytes(mv["param:id"], 20))
		want := govcExempt(ip) || govcFirst21(id, govcBep42(ip, id[19]))
		if got := NodeIdSecure(id, ip); got != want {
			t.Fatalf("NodeIdSecure(%x, %v) = %v, BEP 42 gives %v", id, []byte(ip), got, want)
		}
	case "dht.isLocalNetwork":
		ip := ipOf("ip")
		if got, want := isLocalNetwork(ip), govcExempt(ip); got != want {
			t.Fatalf("isLocalNetwork(%v) = %v, want %v", []byte(ip), got, want)
		}
	default:
		t.Skip("GOVC-REPLAY-SKIP: no replay for " + m.Function)
	}
}
