package dht

import (
	"bytes"
	"errors"
	"net"
	"runtime"
	"testing"
	"time"
)

// a socket that never receives anything and swallows what is sent
type govcDeadConn struct{ closed chan struct{} }

func (c *govcDeadConn) ReadFrom(p []byte) (int, net.Addr, error) {
	<-c.closed
	return 0, nil, net.ErrClosed
}
func (c *govcDeadConn) WriteTo(b []byte, a net.Addr) (int, error) { return len(b), nil }
func (c *govcDeadConn) Close() error {
	select {
	case <-c.closed:
	default:
		close(c.closed)
	}
	return nil
}
func (c *govcDeadConn) LocalAddr() net.Addr                { return &net.UDPAddr{IP: net.IPv4(127, 0, 0, 1), Port: 4242} }
func (c *govcDeadConn) SetDeadline(time.Time) error      { return nil }
func (c *govcDeadConn) SetReadDeadline(time.Time) error  { return nil }
func (c *govcDeadConn) SetWriteDeadline(time.Time) error { return nil }

// Replay of a failed "the lookup started is stopped on every path" obligation (C14): the failing path is the one where
// the starting nodes cannot be obtained. The oracle is the statement: no goroutine of the lookup is left behind.
func govcRunLoops() int {
	buf := make([]byte, 1<<20)
	buf = buf[:runtime.Stack(buf, true)]
	return bytes.Count(buf, []byte("traversal.(*Operation).run("))
}

func TestGovcReplayLookupStop(t *testing.T) {
	_ = govcLoad()
	conn := &govcDeadConn{closed: make(chan struct{})}
	cfg := NewDefaultServerConfig()
	cfg.Conn = conn
	cfg.StartingNodes = func() ([]Addr, error) { return nil, errors.New("no network") }
	s, err := NewServer(cfg)
	if err != nil {
		t.Fatal(err)
	}
	defer s.Close()
	before := govcRunLoops()
	for i := 0; i < 5; i++ {
		if _, err := s.Bootstrap(); err == nil {
			t.Fatal("GOVC-REPLAY-SKIP: bootstrap unexpectedly succeeded")
		}
	}
	// a stopped lookup's run loop exits promptly; give it ample time
	for i := 0; i < 50 && govcRunLoops() > before; i++ {
		time.Sleep(20 * time.Millisecond)
	}
	if n := govcRunLoops() - before; n > 0 {
		t.Fatalf("%d lookup goroutines are still running after 5 failed bootstraps: the lookups were never stopped", n)
	}
}
